#!/bin/bash
# usage: run_all.sh quick|thorough [ids...]   runs the registered checks one after the other, prints one summary line each
T=${1:-quick}; shift
IDS=${@:-C01 C02 C03 C04 C05 C06 C08 C09 C10 C12 C13 C14 C15 C16 C17 C18 C19}
mkdir -p logs
for C in $IDS; do
  S=$(date +%s); ./check $C $T > logs/$C.$T.out 2> logs/$C.$T.err; RC=$?
  echo "$C $T exit=$RC wall=$(( $(date +%s) - S ))s viol=$(grep -c '^VIOLATION' logs/$C.$T.out) known=$(grep -c '^KNOWN-FINDING' logs/$C.$T.out) :: $(tail -1 logs/$C.$T.err)"
done
