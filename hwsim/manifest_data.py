HOOK_COMMITS = []
NOTES = ("Deterministic simulation with fault injection (hwsim). Every check rebuilds hwloc from the /repo working tree, runs seeded plans "
         "in forked worker processes, gates violations on fresh-process replay, minimises them and matches /verif/known-findings.txt. "
         "See DESIGN.md.")
ENGINE_TEXT = {
    "bitmap": "seeded op histories on a pool of bitmaps, refined against a set model (ASan+UBSan)",
}
TRUST = "trusted: harness reference model, clang sanitizers; seeded search, not proof; allocator failure not injected"
CLAIMED = {
    "C03": dict(machine="bitmap", design_ref="4/C03", technique="seeded bitmap operation histories refined against an executable set model",
                text="exploration: many seeded histories (20-200 ops over the whole public bitmap alphabet, aliasing and re-representation ops included) on a pool of six bitmaps; after every mutator the bitmap is read back bit by bit against the model and every query is compared with the documented value; equal model sets with different layouts must answer every query identically. Right level because the representation (word count, allocation, infinite flag) is a product of the history, which only a history search reaches.",
                note=TRUST + "; indexes < 2304; from_ulongs(nr=0) and indexes >= 2^31 are outside the explored domain"),
    "C04": dict(machine="bitmap", design_ref="4/C04", technique="print/parse ops on history-built bitmaps (rider of the C03 machine); pure-input part reported apart",
                text="exploration: the three printers/parsers applied to pool members whose layout comes from seeded histories: snprintf for every buffer length class 0..needed+1 with guard bytes, asprintf agreement, print->parse into a differently shaped bitmap, equal sets print identically. The arbitrary-string clause is a pure function of its input; it is sampled under ASan and counted separately (pure_input_evaluations), the level does not rest on it.",
                note=TRUST + "; list-format strings naming an index >= 2^20 (or negative numbers, which the parser turns into huge indexes) are skipped: hwloc would allocate up to 512 MB per op"),
}
PLANNED = "check not built yet at this commit (planned, DESIGN.md section 4)"
NOT_APPLICABLE = {
    "C07": "pure function of the description string, export flags and filters: no I/O, schedule, fault or history for a simulator to control (DESIGN.md section 2)",
    "C11": "pure functions of (type, attributes, flags, buffer size) and of a string; hwloc_compare_types is a constant table (DESIGN.md section 2); termination/memory safety of the printers on corrupted-XML objects is exercised under C06",
    "C20": "single-shot command-line processes whose output is a pure function of argv and one input file; deciding it is differential testing, not simulation (DESIGN.md section 2)",
}
for _p in ["C01", "C02", "C05", "C06", "C08", "C09", "C10", "C12", "C13", "C14", "C15", "C16", "C17", "C18", "C19"]:
    if _p not in CLAIMED:
        NOT_APPLICABLE[_p] = PLANNED
