HOOK_COMMITS = []
NOTES = ("Deterministic simulation with fault injection (hwsim). Every check rebuilds hwloc from the /repo working tree, runs seeded plans "
         "in forked worker processes, gates violations on fresh-process replay, minimises them and matches /verif/known-findings.txt. "
         "See DESIGN.md.")
ENGINE_TEXT = {
    "topo": "replica world of topologies under seeded operation histories; canonical dump through the public API, independent WF checker, per-op oracles (ASan+UBSan, assertion capture, step budget)",
    "bitmap": "seeded op histories on a pool of bitmaps, refined against a set model (ASan+UBSan)",
}
TRUST = "trusted: harness reference model, clang sanitizers; seeded search, not proof; allocator failure not injected"
CLAIMED = {
    "C03": dict(machine="bitmap", design_ref="4/C03", technique="seeded bitmap operation histories refined against an executable set model",
                text="exploration: many seeded histories (20-200 ops over the whole public bitmap alphabet, aliasing and re-representation ops included) on a pool of six bitmaps; after every mutator the bitmap is read back bit by bit against the model and every query is compared with the documented value; equal model sets with different layouts must answer every query identically. Right level because the representation (word count, allocation, infinite flag) is a product of the history, which only a history search reaches.",
                note=TRUST + "; indexes < 2304; from_ulongs(nr=0) and indexes >= 2^31 are outside the explored domain"),
    "C04": dict(machine="bitmap", design_ref="4/C04", technique="print/parse ops on history-built bitmaps (rider of the C03 machine); pure-input part reported apart",
                text="exploration: the three printers/parsers applied to pool members whose layout comes from seeded histories: snprintf for every buffer length class 0..needed+1 with guard bytes, asprintf agreement, print->parse into a differently shaped bitmap, equal sets print identically. The arbitrary-string clause is a pure function of its input; it is sampled under ASan and counted separately (pure_input_evaluations), the level does not rest on it.",
                note=TRUST + "; list-format strings naming an index >= 2^20 (or negative numbers, which the parser turns into huge indexes) are skipped: hwloc would allocate up to 512 MB per op"),
}
CLAIMED.update({
    "C01": dict(machine="topo", design_ref="4/C01", technique="seeded configure/load histories + independent well-formedness invariant on every simulated state",
                text="exploration: seeded configure->load histories (per-type filter assignments including refused ones, flag words including illegal ones, refused calls after load) over generated synthetic strings and the corpus XML (file and buffer, both XML back-ends as process classes); every loaded topology is judged by an independent checker holding exactly the clauses of the statement plus hwloc_topology_check() under an assertion trap. The same checker runs after every op of every other topology-level check. Sampling of the source x configuration product is input generation and is reported as such.",
                note=TRUST + "; Linux/x86 snapshot sources are exercised by the C18 machine; the live machine is not loaded (not controllable)"),
    "C02": dict(machine="topo", design_ref="4/C02", technique="modifying-call histories with invalid-argument faults, invariants checked after every step",
                text="exploration: seeded histories of 3-40 public modifying calls with valid and invalid arguments (restrict with all flag words, Misc and Group insertion incl. conflicting/empty/dont_merge/equal-to-existing, allow, info edits, subtype, refresh, userdata); after every step the full canonical dump is taken, the independent WF checker and hwloc_topology_check() run, calls documented to fail without effect must leave the dump byte-identical, gp_index never changes type, userdata tokens of survivors are untouched, other replicas do not move.",
                note=TRUST),
    "C05": dict(machine="topo", design_ref="4/C05", technique="XML persist-and-restart inside histories, lock-step replicas, 4 back-end pairings",
                text="exploration: xml_restart (export via file or buffer, v3 or v2 format, fresh init + same flags + all types kept + load) at arbitrary points of modifying histories, under the four nolibxml/libxml export x import pairings (process classes); oracles: reload succeeds, projected canonical dump equal (exactly the fields the statement lists), userdata records delivered to the import callback as exported (names, bytes incl. zero length and base64, counts), re-export byte-identical, later ops applied to both replicas keep them equal (lock-step).",
                note=TRUST + "; three genuine defects are recorded as known findings (nolibxml element-content escaping, redundant Group level, overlapping memattr initiators) plus the memory-child complete_cpuset asymmetry; strings use the characters the exporter keeps"),
    "C12": dict(machine="topo", design_ref="4/C12", technique="dup replicas: equivalence, independence, lock-step, destroy order",
                text="exploration: hwloc_topology_dup taken at arbitrary history points (also of dups and XML-restarted replicas); at dup time full dumps (userdata pointers included) and XML exports must be identical and the source untouched; afterwards an op on one copy never moves the other's dump, the same op on both keeps them equal, and replicas are destroyed mid-history and at the end in seeded order under ASan + LeakSanitizer (double free / use after free / leak = shared storage).",
                note=TRUST),
    "C08": dict(machine="topo", design_ref="4/C08", technique="restrict histories judged by a relational before/after oracle keyed by gp_index; atomic refusal",
                text="exploration: histories with restrict weighted up (cpuset and nodeset, 32 flag words + unknown bit, sub/super/disjoint/infinite/empty sets) on topologies with Misc/I-O objects and CPU-less/memory-less nodes; each call is judged relationally on the dumps before/after: root/complete/allowed sets, exact PU/NUMA survival, every survivor = old object with old sets minus dropped resources, disappearance only when nothing is left below or by level merging with a same-sets twin, Misc/I-O dropped or re-attached to the closest surviving ancestor (or the twin of a merged one), EINVAL => dump unchanged.",
                note=TRUST),
})
ENGINE_TEXT.update({
    "bind": "hwloc's real Linux binding hooks against a model kernel linked under --wrap (sched_*affinity, syscall mbind/set_mempolicy/..., sysfs possible files); refusals injected by the model",
    "sched": "real pthreads parked under a seeded baton scheduler; compile-time TSan instrumentation feeding our own runtime (pre-emption points + happens-before race detector + digest replay)",
})
CLAIMED.update({
    "C10": dict(machine="bind", design_ref="4/C10", technique="hwloc's Linux binding hooks run against a model kernel that observes and refuses",
                text="exploration: every cpubind/membind entry point with valid, empty, out-of-range, infinite and covering sets, all flag words and policies, on foreign, forced-thissystem, dup'ed and natively loaded topologies; the model kernel (20 process classes: cpumask size x PREFERRED_MANY support x sysfs readability) records what reaches the OS: rejected arguments never reach it, covering sets arrive as the complete set, others bit-exact, get-after-set round trip, last-cpu-location inside, ENOSYS without hook, foreign topologies have no system effect, hwloc_topology_load() restores the caller's binding even when per-PU binds are refused.",
                note=TRUST + "; the clause 'on the running system' is decided against the model kernel running hwloc's real Linux code, not against Linux; the real kernel is never asked"),
    "C17": dict(machine="sched", design_ref="4/C17", technique="seeded baton scheduler over instrumented accesses + happens-before race oracle + single-threaded digest replay",
                text="exploration: workload A = 2-4 reader tasks running consulting calls on one loaded/modified/refreshed topology, workload B = tasks each running an independent init/load/modify/export/destroy history; every load/store of hwloc (compile-time TSan instrumentation, own runtime) is a pre-emption point and feeds a vector-clock happens-before detector with byte-exact shadow; schedules by PCT, random switch or switch-at-calls from the plan; oracles: no heap race, no static race except idempotent once-inits (listed by symbol), per-task result digests equal a single-threaded replay, topology digest unchanged, no deadlock. Each batch self-tests the detector on the documented-unsafe no-refresh workload.",
                note=TRUST + "; sequentially consistent schedule search, races judged at C11 happens-before level; accesses inside uninstrumented libc/libxml2 are atomic under the baton and unobserved except wrapped memcpy/memmove/memset/qsort/strdup"),
})
PLANNED = "check not built yet at this commit (planned, DESIGN.md section 4)"
NOT_APPLICABLE = {
    "C07": "pure function of the description string, export flags and filters: no I/O, schedule, fault or history for a simulator to control (DESIGN.md section 2)",
    "C11": "pure functions of (type, attributes, flags, buffer size) and of a string; hwloc_compare_types is a constant table (DESIGN.md section 2); termination/memory safety of the printers on corrupted-XML objects is exercised under C06",
    "C20": "single-shot command-line processes whose output is a pure function of argv and one input file; deciding it is differential testing, not simulation (DESIGN.md section 2)",
}
for _p in ["C06", "C09", "C13", "C14", "C15", "C16", "C18", "C19"]:
    if _p not in CLAIMED:
        NOT_APPLICABLE[_p] = PLANNED
