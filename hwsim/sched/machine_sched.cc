// Scheduler machine (C17): documented thread-safety.
//   workload A: T reader tasks consult one refreshed topology concurrently
//   workload B: T tasks each run an independent init/load/modify/export/destroy history
// Oracles: happens-before race detector (sched_rt), per-op result digests against a single-threaded
// replay, topology digest unchanged by the reader phase.  See DESIGN.md 3.7 and 4/C17.
//
// This file is compiled WITH the -fsanitize=thread instrumentation: hwloc's static inline helpers
// (include/hwloc/helper.h, inlines.h) only exist inside whoever includes them.
#include "../core/hwsim.h"
#include "sched_rt.h"
#include <hwloc.h>
#include <hwloc/diff.h>
#include <errno.h>
#include <limits.h>
#include <dirent.h>
#include <sys/stat.h>
#include <unistd.h>
#include <pthread.h>
#include <algorithm>
#include <fstream>
#include <sstream>

using namespace hwsim;

namespace {

// ------------------------------------------------------------------------------------ digests (no pointers)
struct Dg {
  uint64_t h = 0x84222325cbf29ce4ULL;
  void u(uint64_t v) { h = mix2(h, v); }
  void i(int64_t v) { u((uint64_t)v); }
  void s(const char *p) { if (!p) { u(0x6e756c6cULL); return; } u(sched::hash_bytes(p, strlen(p))); }
  void bm(hwloc_const_bitmap_t b) {
    if (!b) { u(0x6e6f626dULL); return; }
    int n = hwloc_bitmap_nr_ulongs(b);
    unsigned long w[8];
    if (n < 0) { u(0x696e66ULL); i(hwloc_bitmap_last_unset(b)); hwloc_bitmap_to_ulongs(b, 8, w); for (int k = 0; k < 8; k++) u(w[k]); return; }
    i(n);
    for (int base = 0; base < n; base += 8) {
      int m = std::min(8, n - base);
      for (int k = 0; k < m; k++) u(hwloc_bitmap_to_ith_ulong(b, (unsigned)(base + k)));
    }
  }
  void obj(hwloc_obj_t o) {
    if (!o) { u(0x6e6f6f626aULL); return; }
    u(((uint64_t)o->type << 48) ^ ((uint64_t)(uint32_t)o->depth << 24) ^ o->logical_index);
  }
  void err(int rc) { i(rc); if (rc < 0) i(errno); }
};

// ------------------------------------------------------------------------------------ operand selection (modulo what exists)
const int SPECIAL_DEPTHS[] = {HWLOC_TYPE_DEPTH_NUMANODE, HWLOC_TYPE_DEPTH_BRIDGE, HWLOC_TYPE_DEPTH_PCI_DEVICE, HWLOC_TYPE_DEPTH_OS_DEVICE,
                              HWLOC_TYPE_DEPTH_MISC, HWLOC_TYPE_DEPTH_MEMCACHE};

hwloc_obj_t pick_normal(hwloc_topology_t t, uint64_t a) {
  int depth = hwloc_topology_get_depth(t);
  int d = (int)(a % (uint64_t)depth);
  unsigned n = hwloc_get_nbobjs_by_depth(t, d);
  return hwloc_get_obj_by_depth(t, d, (unsigned)((a >> 8) % (n ? n : 1)));
}
hwloc_obj_t pick_obj(hwloc_topology_t t, uint64_t a) {
  int depth = hwloc_topology_get_depth(t);
  int sel = (int)(a % (uint64_t)(depth + 6));
  if (sel < depth) return pick_normal(t, a / (uint64_t)(depth + 6));
  int d = SPECIAL_DEPTHS[sel - depth];
  unsigned n = hwloc_get_nbobjs_by_depth(t, d);
  if (!n) return pick_normal(t, a >> 5);
  return hwloc_get_obj_by_depth(t, d, (unsigned)((a >> 8) % n));
}
hwloc_obj_t pick_numa(hwloc_topology_t t, uint64_t a) {
  unsigned n = hwloc_get_nbobjs_by_depth(t, HWLOC_TYPE_DEPTH_NUMANODE);
  return n ? hwloc_get_obj_by_depth(t, HWLOC_TYPE_DEPTH_NUMANODE, (unsigned)(a % n)) : nullptr;
}
// a private bitmap (caller frees): object cpusets, unions, hashed subsets, degenerate sets
hwloc_bitmap_t pick_cpuset(hwloc_topology_t t, uint64_t a, uint64_t b) {
  hwloc_bitmap_t s = hwloc_bitmap_alloc();
  hwloc_const_bitmap_t all = hwloc_topology_get_topology_cpuset(t);
  switch (a % 6) {
    case 0: hwloc_bitmap_copy(s, pick_normal(t, b)->cpuset); break;
    case 1: hwloc_bitmap_or(s, pick_normal(t, b)->cpuset, pick_normal(t, b >> 17)->cpuset); break;
    case 2: { uint64_t x = b | 1; int k = 0; for (int i = hwloc_bitmap_first(all); i >= 0; i = hwloc_bitmap_next(all, i), k++) { if (mix2(x, (uint64_t)k) & 1) hwloc_bitmap_set(s, (unsigned)i); } break; }
    case 3: { hwloc_bitmap_copy(s, pick_normal(t, b)->cpuset); int f = hwloc_bitmap_first(s); if (f >= 0) hwloc_bitmap_clr(s, (unsigned)f); break; }
    case 4: if (b & 1) hwloc_bitmap_set(s, 900); else if (b & 2) hwloc_bitmap_copy(s, all); break;
    default: hwloc_bitmap_copy(s, pick_normal(t, b)->cpuset); if (b & 4) hwloc_bitmap_set(s, 901); break;
  }
  return s;
}
struct Loc { struct hwloc_location l; hwloc_bitmap_t owned = nullptr; ~Loc() { if (owned) hwloc_bitmap_free(owned); } };
void pick_location(hwloc_topology_t t, uint64_t c, Loc &L) {
  hwloc_obj_t o = pick_normal(t, c >> 1);
  if (c & 1) { L.l.type = HWLOC_LOCATION_TYPE_OBJECT; L.l.location.object = o; }
  else { L.owned = hwloc_bitmap_dup(o->cpuset); L.l.type = HWLOC_LOCATION_TYPE_CPUSET; L.l.location.cpuset = L.owned; }
}
void dg_location(Dg &d, const struct hwloc_location &l) {
  d.i(l.type);
  if (l.type == HWLOC_LOCATION_TYPE_OBJECT) d.obj(l.location.object); else d.bm(l.location.cpuset);
}
void dg_infos(Dg &d, const struct hwloc_infos_s *infos) {
  if (!infos) { d.u(0); return; }
  d.u(infos->count);
  for (unsigned i = 0; i < infos->count; i++) { d.s(infos->array[i].name); d.s(infos->array[i].value); }
}

const char *const DIST_NAMES[] = {"NUMALatency", "hwsimdist0", "hwsimdist1", "NVLinkBandwidth", "XGMIBandwidth", "nosuch"};
const char *const ATTR_NAMES[] = {"Capacity", "Locality", "Bandwidth", "Latency", "ReadBandwidth", "WriteLatency", "hwsimattr0", "hwsimattr1", "nosuch"};
const char *const INFO_NAMES[] = {"CPUModel", "Backend", "hwsimkey0", "hwsimkey1", "OSName", "PCIVendor"};

}  // namespace

// ====================================================================================== consulting ops
// Plain C names so that the functions named in a race class are readable. Each returns a digest of
// everything the calls returned. Only calls the statement lists as consulting are made on `t`.
extern "C" {

static void walk_rec(hwloc_topology_t t, hwloc_obj_t o, Dg &d, int verbose) {
  char buf[256];
  d.obj(o); d.u(o->os_index); d.u(o->sibling_rank); d.u(o->arity); d.u(o->memory_arity); d.u(o->io_arity); d.u(o->misc_arity);
  d.u(o->total_memory); d.u(o->gp_index); d.s(o->name); d.s(o->subtype);
  d.bm(o->cpuset); d.bm(o->nodeset); d.bm(o->complete_cpuset); d.bm(o->complete_nodeset);
  dg_infos(d, &o->infos);
  if (verbose) {
    d.i(hwloc_obj_type_snprintf(buf, sizeof buf, o, 0)); d.s(buf);
    d.i(hwloc_obj_attr_snprintf(buf, sizeof buf, o, "|", HWLOC_OBJ_SNPRINTF_FLAG_MORE_ATTRS)); d.s(buf);
  }
  hwloc_obj_t c = nullptr;
  while ((c = hwloc_get_next_child(t, o, c)) != nullptr) { if (c->parent != o) d.u(0xbadbadULL); walk_rec(t, c, d, verbose); }
}
uint64_t c17_rd_walk(hwloc_topology_t t, uint64_t a, uint64_t b, uint64_t) {
  Dg d; walk_rec(t, (a % 3) ? pick_obj(t, b) : hwloc_get_root_obj(t), d, (int)(a & 1)); return d.h;
}

uint64_t c17_rd_levels(hwloc_topology_t t, uint64_t a, uint64_t, uint64_t) {
  Dg d; int depth = hwloc_topology_get_depth(t); d.i(depth); d.i(hwloc_get_memory_parents_depth(t));
  for (int k = -(int)(sizeof SPECIAL_DEPTHS / sizeof *SPECIAL_DEPTHS); k < depth; k++) {
    int dd = k < 0 ? SPECIAL_DEPTHS[-k - 1] : k;
    d.i(hwloc_get_depth_type(t, dd)); unsigned n = hwloc_get_nbobjs_by_depth(t, dd); d.u(n);
    hwloc_obj_t o = nullptr, prev = nullptr; unsigned cnt = 0;
    while ((o = hwloc_get_next_obj_by_depth(t, dd, o)) != nullptr) { if (o->prev_cousin != prev || o->logical_index != cnt) d.u(0xbadc0ffeeULL); d.obj(o); prev = o; cnt++; }
    d.u(cnt);
    if (n) d.obj(hwloc_get_obj_by_depth(t, dd, (unsigned)(a % n)));
    d.obj(hwloc_get_obj_by_depth(t, dd, n));
  }
  for (int ty = HWLOC_OBJ_TYPE_MIN; ty < HWLOC_OBJ_TYPE_MAX; ty++) {
    hwloc_obj_type_t T = (hwloc_obj_type_t)ty;
    d.i(hwloc_get_type_depth(t, T)); d.i(hwloc_get_type_or_below_depth(t, T)); d.i(hwloc_get_type_or_above_depth(t, T)); d.i(hwloc_get_nbobjs_by_type(t, T));
    d.obj(hwloc_get_obj_by_type(t, T, (unsigned)(a % 5))); d.obj(hwloc_get_next_obj_by_type(t, T, nullptr));
    enum hwloc_type_filter_e f; d.i(hwloc_topology_get_type_filter(t, T, &f)); d.i(f);
  }
  return d.h;
}

uint64_t c17_rd_covering(hwloc_topology_t t, uint64_t a, uint64_t b, uint64_t c) {
  Dg d; hwloc_bitmap_t s = pick_cpuset(t, a, b); d.bm(s);
  d.obj(hwloc_get_obj_covering_cpuset(t, s));
  d.obj(hwloc_get_first_largest_obj_inside_cpuset(t, s));
  hwloc_obj_t objs[32]; int max = 1 + (int)(c % 32);
  int n = hwloc_get_largest_objs_inside_cpuset(t, s, objs, max); d.i(n);
  for (int k = 0; k < n && k < max; k++) d.obj(objs[k]);
  d.obj(hwloc_get_child_covering_cpuset(t, s, hwloc_get_root_obj(t)));
  d.obj(hwloc_get_cache_covering_cpuset(t, s));
  int depth = hwloc_topology_get_depth(t), dd = (int)((c >> 8) % (uint64_t)depth);
  hwloc_obj_t o = nullptr; while ((o = hwloc_get_next_obj_covering_cpuset_by_depth(t, s, dd, o)) != nullptr) d.obj(o);
  o = nullptr; while ((o = hwloc_get_next_obj_covering_cpuset_by_type(t, s, (c & 1) ? HWLOC_OBJ_CORE : HWLOC_OBJ_PU, o)) != nullptr) d.obj(o);
  hwloc_bitmap_free(s); return d.h;
}

uint64_t c17_rd_inside(hwloc_topology_t t, uint64_t a, uint64_t b, uint64_t c) {
  Dg d; hwloc_bitmap_t s = pick_cpuset(t, a, b);
  int depth = hwloc_topology_get_depth(t), dd = (int)(c % (uint64_t)depth);
  hwloc_obj_type_t ty = hwloc_get_depth_type(t, dd);
  unsigned n = hwloc_get_nbobjs_inside_cpuset_by_depth(t, s, dd); d.u(n); d.i(hwloc_get_nbobjs_inside_cpuset_by_type(t, s, ty));
  hwloc_obj_t o = nullptr, first = nullptr; while ((o = hwloc_get_next_obj_inside_cpuset_by_depth(t, s, dd, o)) != nullptr) { if (!first) first = o; d.obj(o); }
  o = nullptr; while ((o = hwloc_get_next_obj_inside_cpuset_by_type(t, s, ty, o)) != nullptr) d.obj(o);
  d.obj(hwloc_get_obj_inside_cpuset_by_depth(t, s, dd, (unsigned)((c >> 8) % (n + 1))));
  d.obj(hwloc_get_obj_inside_cpuset_by_type(t, s, ty, (unsigned)((c >> 16) % (n + 1))));
  if (first) d.i(hwloc_get_obj_index_inside_cpuset(t, s, first));
  hwloc_bitmap_free(s); return d.h;
}

uint64_t c17_rd_ancestor(hwloc_topology_t t, uint64_t a, uint64_t b, uint64_t c) {
  Dg d; hwloc_obj_t o1 = pick_normal(t, a), o2 = pick_normal(t, b), o3 = pick_obj(t, c);
  d.obj(hwloc_get_common_ancestor_obj(t, o1, o2));
  int depth = hwloc_topology_get_depth(t);
  d.obj(hwloc_get_ancestor_obj_by_depth(t, (int)(c % (uint64_t)depth), o1));
  static const hwloc_obj_type_t tys[] = {HWLOC_OBJ_MACHINE, HWLOC_OBJ_PACKAGE, HWLOC_OBJ_GROUP, HWLOC_OBJ_NUMANODE, HWLOC_OBJ_L3CACHE, HWLOC_OBJ_CORE, HWLOC_OBJ_DIE};
  d.obj(hwloc_get_ancestor_obj_by_type(t, tys[(c >> 8) % 7], o1)); d.obj(hwloc_get_ancestor_obj_by_type(t, tys[(c >> 12) % 7], o3));
  d.i(hwloc_obj_is_in_subtree(t, o1, o2)); d.i(hwloc_obj_is_in_subtree(t, o2, o1));
  d.obj(hwloc_get_non_io_ancestor_obj(t, o3));
  d.obj(hwloc_get_shared_cache_covering_obj(t, o1));
  hwloc_obj_t p = o3->parent ? o3->parent : o3, ch = nullptr;
  while ((ch = hwloc_get_next_child(t, p, ch)) != nullptr) d.obj(ch);
  for (hwloc_obj_t x = o3; x; x = x->parent) d.obj(x);
  return d.h;
}

uint64_t c17_rd_closest(hwloc_topology_t t, uint64_t a, uint64_t b, uint64_t) {
  Dg d; hwloc_obj_t src = pick_normal(t, a); hwloc_obj_t objs[64]; unsigned max = 1 + (unsigned)(b % 64);
  unsigned n = hwloc_get_closest_objs(t, src, objs, max); d.obj(src); d.u(n);
  for (unsigned k = 0; k < n && k < max; k++) d.obj(objs[k]);
  return d.h;
}

uint64_t c17_rd_sets(hwloc_topology_t t, uint64_t a, uint64_t b, uint64_t c) {
  Dg d;
  hwloc_const_bitmap_t g[6] = {hwloc_topology_get_topology_cpuset(t), hwloc_topology_get_complete_cpuset(t), hwloc_topology_get_allowed_cpuset(t),
                               hwloc_topology_get_topology_nodeset(t), hwloc_topology_get_complete_nodeset(t), hwloc_topology_get_allowed_nodeset(t)};
  char buf[512];
  for (int k = 0; k < 6; k++) {
    hwloc_const_bitmap_t x = g[k], y = g[(k + 1 + a % 5) % 6];
    d.bm(x); d.i(hwloc_bitmap_weight(x)); d.i(hwloc_bitmap_first(x)); d.i(hwloc_bitmap_last(x)); d.i(hwloc_bitmap_next(x, hwloc_bitmap_first(x)));
    d.i(hwloc_bitmap_first_unset(x)); d.i(hwloc_bitmap_iszero(x)); d.i(hwloc_bitmap_isfull(x)); d.i(hwloc_bitmap_isset(x, (unsigned)(b % 300)));
    d.i(hwloc_bitmap_isincluded(x, y)); d.i(hwloc_bitmap_intersects(x, y)); d.i(hwloc_bitmap_isequal(x, y)); d.i(hwloc_bitmap_compare(x, y)); d.i(hwloc_bitmap_compare_first(x, y));
    d.i(hwloc_bitmap_list_snprintf(buf, sizeof buf, x)); d.s(buf);
    d.i(hwloc_bitmap_snprintf(buf, sizeof buf, x)); d.s(buf);
    unsigned idx; int cnt = 0; hwloc_bitmap_foreach_begin(idx, x) { cnt += (int)idx; } hwloc_bitmap_foreach_end(); d.i(cnt);
  }
  hwloc_bitmap_t s = pick_cpuset(t, b, c), ns = hwloc_bitmap_alloc(), cs = hwloc_bitmap_alloc();
  d.i(hwloc_cpuset_to_nodeset(t, s, ns)); d.bm(ns);
  d.i(hwloc_cpuset_from_nodeset(t, cs, ns)); d.bm(cs);
  hwloc_bitmap_and(s, s, g[0]);
  d.i(hwloc_bitmap_singlify_per_core(t, s, (unsigned)(c % 3))); d.bm(s);
  hwloc_bitmap_free(s); hwloc_bitmap_free(ns); hwloc_bitmap_free(cs);
  return d.h;
}

uint64_t c17_rd_distrib(hwloc_topology_t t, uint64_t a, uint64_t b, uint64_t c) {
  Dg d; hwloc_obj_t roots[2]; unsigned nroots = 1; roots[0] = hwloc_get_root_obj(t);
  int depth = hwloc_topology_get_depth(t);
  if (a & 1) {
    int dd = (int)((a >> 1) % (uint64_t)depth); unsigned n = hwloc_get_nbobjs_by_depth(t, dd);
    roots[0] = hwloc_get_obj_by_depth(t, dd, (unsigned)((a >> 8) % n));
    if (n > 1 && (a & 2)) { roots[1] = hwloc_get_obj_by_depth(t, dd, (unsigned)(((a >> 8) + 1) % n)); nroots = 2; }
  }
  unsigned n = 1 + (unsigned)(b % 20); hwloc_cpuset_t sets[20]; for (unsigned k = 0; k < 20; k++) sets[k] = nullptr;
  int until = (c % 3) ? INT_MAX : (int)((c >> 2) % (uint64_t)depth);
  int rc = hwloc_distrib(t, roots, nroots, sets, n, until, (c & 0x100) ? HWLOC_DISTRIB_FLAG_REVERSE : 0); d.err(rc);
  for (unsigned k = 0; k < n; k++) { d.bm(sets[k]); if (sets[k]) hwloc_bitmap_free(sets[k]); }
  return d.h;
}

uint64_t c17_rd_locality(hwloc_topology_t t, uint64_t a, uint64_t b, uint64_t c) {
  Dg d; hwloc_obj_t src = pick_obj(t, a);
  static const hwloc_obj_type_t tys[] = {HWLOC_OBJ_PU, HWLOC_OBJ_CORE, HWLOC_OBJ_PACKAGE, HWLOC_OBJ_NUMANODE, HWLOC_OBJ_OS_DEVICE, HWLOC_OBJ_PCI_DEVICE, HWLOC_OBJ_L2CACHE, HWLOC_OBJ_MACHINE, HWLOC_OBJ_GROUP};
  for (int k = 0; k < 3; k++) { hwloc_obj_t o = hwloc_get_obj_with_same_locality(t, src, tys[(b >> (4 * k)) % 9], nullptr, (k == 2 && (b & 0x8000)) ? "c" : nullptr, 0); d.obj(o); if (!o) d.i(errno); }
  d.obj(hwloc_get_pu_obj_by_os_index(t, (unsigned)(c % 300))); d.obj(hwloc_get_numanode_obj_by_os_index(t, (unsigned)(c % 9)));
  d.obj(hwloc_get_obj_below_by_type(t, HWLOC_OBJ_PACKAGE, (unsigned)(c % 4), HWLOC_OBJ_PU, (unsigned)((c >> 4) % 8)));
  hwloc_obj_type_t tv[3] = {HWLOC_OBJ_PACKAGE, HWLOC_OBJ_CORE, HWLOC_OBJ_PU}; unsigned iv[3] = {(unsigned)(c % 3), (unsigned)((c >> 3) % 3), (unsigned)((c >> 6) % 2)};
  d.obj(hwloc_get_obj_below_array_by_type(t, 3, tv, iv));
  for (unsigned lvl = 1; lvl <= 3; lvl++) { d.i(hwloc_get_cache_type_depth(t, lvl, (hwloc_obj_cache_type_t)-1)); d.i(hwloc_get_cache_type_depth(t, lvl, HWLOC_OBJ_CACHE_DATA)); d.i(hwloc_get_cache_type_depth(t, lvl, HWLOC_OBJ_CACHE_INSTRUCTION)); }
  return d.h;
}

uint64_t c17_rd_typeprint(hwloc_topology_t t, uint64_t a, uint64_t b, uint64_t c) {
  Dg d; hwloc_obj_t o = pick_obj(t, a); char buf[384];
  static const unsigned long fl[] = {0, HWLOC_OBJ_SNPRINTF_FLAG_LONG_NAMES, HWLOC_OBJ_SNPRINTF_FLAG_SHORT_NAMES, HWLOC_OBJ_SNPRINTF_FLAG_MORE_ATTRS, HWLOC_OBJ_SNPRINTF_FLAG_NO_UNITS, HWLOC_OBJ_SNPRINTF_FLAG_OLD_VERBOSE,
                                     HWLOC_OBJ_SNPRINTF_FLAG_LONG_NAMES | HWLOC_OBJ_SNPRINTF_FLAG_MORE_ATTRS};
  size_t len = (c & 3) == 0 ? (size_t)(c >> 2) % 12 : sizeof buf;
  buf[0] = 0;
  d.i(hwloc_obj_type_snprintf(buf, len, o, fl[b % 7])); if (len) d.s(buf);
  buf[0] = 0;
  d.i(hwloc_obj_attr_snprintf(buf, len, o, (b & 0x100) ? ", " : " ", fl[(b >> 4) % 7])); if (len) d.s(buf);
  d.i(hwloc_obj_type_snprintf(nullptr, 0, o, 0)); d.i(hwloc_obj_attr_snprintf(nullptr, 0, o, " ", 0));
  d.s(hwloc_obj_type_string(o->type));
  d.s(hwloc_get_info_by_name(&o->infos, INFO_NAMES[c % 6])); d.s(hwloc_get_info_by_name(hwloc_topology_get_infos(t), INFO_NAMES[(c >> 3) % 6]));
  d.i(hwloc_obj_type_is_normal(o->type)); d.i(hwloc_obj_type_is_io(o->type)); d.i(hwloc_obj_type_is_memory(o->type)); d.i(hwloc_obj_type_is_cache(o->type));
  return d.h;
}

static void dg_dist(hwloc_topology_t t, Dg &d, struct hwloc_distances_s *ds, uint64_t c) {
  d.s(hwloc_distances_get_name(t, ds)); d.u(ds->kind); d.u(ds->nbobjs);
  for (unsigned k = 0; k < ds->nbobjs; k++) d.obj(ds->objs[k]);
  for (unsigned k = 0; k < ds->nbobjs * ds->nbobjs; k++) d.u(ds->values[k]);
  if (ds->nbobjs) {
    hwloc_obj_t o1 = ds->objs[c % ds->nbobjs], o2 = ds->objs[(c >> 8) % ds->nbobjs];
    if (o1 && o2) { hwloc_uint64_t v12 = 0, v21 = 0; d.i(hwloc_distances_obj_index(ds, o1)); d.i(hwloc_distances_obj_pair_values(ds, o1, o2, &v12, &v21)); d.u(v12); d.u(v21); }
    d.i(hwloc_distances_obj_index(ds, hwloc_get_root_obj(t)));
  }
}
uint64_t c17_rd_dist(hwloc_topology_t t, uint64_t a, uint64_t b, uint64_t c) {
  Dg d; struct hwloc_distances_s *ds[12]; unsigned nr = 1 + (unsigned)((a >> 4) % 12), asked = nr; int rc;
  static const unsigned long kinds[] = {0, HWLOC_DISTANCES_KIND_FROM_USER, HWLOC_DISTANCES_KIND_FROM_OS, HWLOC_DISTANCES_KIND_VALUE_LATENCY, HWLOC_DISTANCES_KIND_VALUE_BANDWIDTH,
                                        HWLOC_DISTANCES_KIND_FROM_USER | HWLOC_DISTANCES_KIND_VALUE_LATENCY, HWLOC_DISTANCES_KIND_VALUE_HOPS};
  unsigned long kind = kinds[b % 7];
  switch (a % 4) {
    case 0: rc = hwloc_distances_get(t, &nr, ds, kind, 0); break;
    case 1: { hwloc_obj_t o = pick_obj(t, b >> 8); rc = hwloc_distances_get_by_depth(t, o->depth, &nr, ds, kind, 0); break; }
    case 2: { hwloc_obj_t o = pick_obj(t, b >> 8); rc = hwloc_distances_get_by_type(t, o->type, &nr, ds, kind, 0); break; }
    default: rc = hwloc_distances_get_by_name(t, DIST_NAMES[(b >> 8) % 6], &nr, ds, 0); break;
  }
  d.err(rc); d.u(nr);
  if (rc) return d.h;
  unsigned got = std::min(nr, asked);
  for (unsigned k = 0; k < got; k++) {
    dg_dist(t, d, ds[k], c);
    if ((c >> 16) % 3 == 0) {   // transformation of the caller's private copy
      static const enum hwloc_distances_transform_e tr[] = {HWLOC_DISTANCES_TRANSFORM_REMOVE_NULL, HWLOC_DISTANCES_TRANSFORM_LINKS, HWLOC_DISTANCES_TRANSFORM_MERGE_SWITCH_PORTS, HWLOC_DISTANCES_TRANSFORM_TRANSITIVE_CLOSURE};
      if ((c >> 20) & 1 && ds[k]->nbobjs > 2) ds[k]->objs[(c >> 24) % ds[k]->nbobjs] = nullptr;   // documented: objs may be modified in place
      d.err(hwloc_distances_transform(t, ds[k], tr[(c >> 18) % 4], nullptr, 0));
      dg_dist(t, d, ds[k], c);
    }
    hwloc_distances_release(t, ds[k]);
  }
  return d.h;
}

static hwloc_memattr_id_t pick_attr(hwloc_topology_t t, uint64_t b) {
  unsigned sel = (unsigned)(b % 12);
  if (sel < 8) return sel;
  if (sel < 10) { hwloc_memattr_id_t id = 0; if (!hwloc_memattr_get_by_name(t, ATTR_NAMES[6 + (sel - 8)], &id)) return id; return HWLOC_MEMATTR_ID_BANDWIDTH; }
  return sel;  // 10, 11: possibly unknown ids
}
uint64_t c17_rd_memattr(hwloc_topology_t t, uint64_t a, uint64_t b, uint64_t c) {
  Dg d; hwloc_memattr_id_t attr = pick_attr(t, b); d.u(attr);
  Loc L; pick_location(t, c, L);
  struct hwloc_location *init = (c >> 40) % 5 == 0 ? nullptr : &L.l;
  hwloc_obj_t target = pick_numa(t, b >> 8);
  switch (a % 6) {
    case 0: {
      for (unsigned k = 0; k < sizeof ATTR_NAMES / sizeof *ATTR_NAMES; k++) { hwloc_memattr_id_t id = 99; d.err(hwloc_memattr_get_by_name(t, ATTR_NAMES[k], &id)); d.u(id); }
      for (hwloc_memattr_id_t id = 0; id < 12; id++) { const char *nm = nullptr; unsigned long fl = 0; d.err(hwloc_memattr_get_name(t, id, &nm)); d.s(nm); d.err(hwloc_memattr_get_flags(t, id, &fl)); d.u(fl); }
      break;
    }
    case 1: { hwloc_uint64_t v = 0; if (target) { d.err(hwloc_memattr_get_value(t, attr, target, init, 0, &v)); d.u(v); } break; }
    case 2: { hwloc_obj_t best = nullptr; hwloc_uint64_t v = 0; d.err(hwloc_memattr_get_best_target(t, attr, init, 0, &best, &v)); d.obj(best); d.u(v); break; }
    case 3: { struct hwloc_location bl; bl.type = HWLOC_LOCATION_TYPE_OBJECT; bl.location.object = nullptr; hwloc_uint64_t v = 0;
              if (target) { int rc = hwloc_memattr_get_best_initiator(t, attr, target, 0, &bl, &v); d.err(rc); if (!rc) { dg_location(d, bl); d.u(v); } } break; }
    case 4: { unsigned nr = (unsigned)((c >> 44) % 9), asked = nr; hwloc_obj_t tg[8]; hwloc_uint64_t vals[8];
              int rc = hwloc_memattr_get_targets(t, attr, init, 0, &nr, tg, (c >> 50) & 1 ? nullptr : vals); d.err(rc); d.u(nr);
              if (!rc) for (unsigned k = 0; k < nr && k < asked; k++) { d.obj(tg[k]); if (!((c >> 50) & 1)) d.u(vals[k]); } break; }
    default: { unsigned nr = (unsigned)((c >> 44) % 9), asked = nr; struct hwloc_location ls[8]; hwloc_uint64_t vals[8];
               if (target) { int rc = hwloc_memattr_get_initiators(t, attr, target, 0, &nr, ls, vals); d.err(rc); d.u(nr);
                             if (!rc) for (unsigned k = 0; k < nr && k < asked; k++) { dg_location(d, ls[k]); d.u(vals[k]); } } break; }
  }
  return d.h;
}

uint64_t c17_rd_localnodes(hwloc_topology_t t, uint64_t a, uint64_t b, uint64_t c) {
  Dg d; Loc L; pick_location(t, c, L);
  unsigned long fl = (unsigned long)(a % 8);
  unsigned nr = (unsigned)(b % 17), asked = nr; hwloc_obj_t nodes[16];
  int rc = hwloc_get_local_numanode_objs(t, ((b >> 8) % 7 == 0) ? nullptr : &L.l, &nr, nodes, fl); d.err(rc); d.u(nr);
  if (!rc) for (unsigned k = 0; k < nr && k < asked; k++) d.obj(nodes[k]);
  hwloc_bitmap_t ns = hwloc_bitmap_alloc(); d.err(hwloc_topology_get_default_nodeset(t, ns, 0)); d.bm(ns); hwloc_bitmap_free(ns);
  return d.h;
}

uint64_t c17_rd_cpukinds(hwloc_topology_t t, uint64_t a, uint64_t b, uint64_t) {
  Dg d; int nr = hwloc_cpukinds_get_nr(t, 0); d.i(nr);
  hwloc_bitmap_t s = hwloc_bitmap_alloc();
  for (int k = 0; k <= nr && k < 16; k++) { int eff = -7; struct hwloc_infos_s *infos = nullptr; int rc = hwloc_cpukinds_get_info(t, (unsigned)k, s, &eff, &infos, 0); d.err(rc); if (!rc) { d.bm(s); d.i(eff); dg_infos(d, infos); } }
  hwloc_bitmap_free(s);
  hwloc_bitmap_t q = pick_cpuset(t, a, b); d.err(hwloc_cpukinds_get_by_cpuset(t, q, 0)); hwloc_bitmap_free(q);
  return d.h;
}

uint64_t c17_rd_xmlbuf(hwloc_topology_t t, uint64_t a, uint64_t, uint64_t) {
  Dg d; char *buf = nullptr; int len = 0;
  int rc = hwloc_topology_export_xmlbuffer(t, &buf, &len, (a & 1) ? HWLOC_TOPOLOGY_EXPORT_XML_FLAG_V2 : 0); d.err(rc);
  if (!rc && buf) { d.i(len); d.u(sched::hash_bytes(buf, (size_t)len)); hwloc_free_xmlbuffer(t, buf); }
  return d.h;
}

uint64_t c17_rd_synth(hwloc_topology_t t, uint64_t a, uint64_t b, uint64_t) {
  Dg d; char buf[4096]; size_t len = (b % 5 == 0) ? (size_t)(b >> 4) % 40 : sizeof buf;
  buf[0] = 0;
  int rc = hwloc_topology_export_synthetic(t, buf, len, (unsigned long)(a % 16)); d.err(rc);
  if (rc >= 0 && len) d.s(buf);
  return d.h;
}

uint64_t c17_rd_infos(hwloc_topology_t t, uint64_t, uint64_t, uint64_t) {
  Dg d; dg_infos(d, hwloc_topology_get_infos(t));
  const struct hwloc_topology_support *sp = hwloc_topology_get_support(t);
  d.u(sched::hash_bytes(sp->discovery, sizeof *sp->discovery)); d.u(sched::hash_bytes(sp->cpubind, sizeof *sp->cpubind));
  d.u(sched::hash_bytes(sp->membind, sizeof *sp->membind)); d.u(sched::hash_bytes(sp->misc, sizeof *sp->misc));
  d.i(hwloc_topology_is_thissystem(t)); d.u(hwloc_topology_get_flags(t)); d.i(hwloc_topology_abi_check(t)); d.u(hwloc_get_api_version());
  d.i(hwloc_topology_get_depth(t)); d.s((const char *)hwloc_topology_get_userdata(t));
  return d.h;
}

uint64_t c17_rd_io(hwloc_topology_t t, uint64_t a, uint64_t, uint64_t) {
  Dg d; hwloc_obj_t o = nullptr, firstpci = nullptr; char busid[64];
  while ((o = hwloc_get_next_pcidev(t, o)) != nullptr) { if (!firstpci || (a & 1)) firstpci = o; d.obj(o); d.u(o->attr->pcidev.domain); d.u(o->attr->pcidev.bus); d.u(o->attr->pcidev.dev); d.u(o->attr->pcidev.func); d.obj(hwloc_get_non_io_ancestor_obj(t, o)); }
  o = nullptr; while ((o = hwloc_get_next_osdev(t, o)) != nullptr) { d.obj(o); d.u(o->attr->osdev.types); d.s(o->name); d.obj(hwloc_get_obj_with_same_locality(t, o, HWLOC_OBJ_PCI_DEVICE, nullptr, nullptr, 0)); }
  o = nullptr; while ((o = hwloc_get_next_bridge(t, o)) != nullptr) { d.obj(o); if (firstpci) d.i(hwloc_bridge_covers_pcibus(o, firstpci->attr->pcidev.domain, firstpci->attr->pcidev.bus)); }
  if (firstpci) {
    d.obj(hwloc_get_pcidev_by_busid(t, firstpci->attr->pcidev.domain, firstpci->attr->pcidev.bus, firstpci->attr->pcidev.dev, firstpci->attr->pcidev.func));
    snprintf(busid, sizeof busid, "%04x:%02x:%02x.%01x", firstpci->attr->pcidev.domain, firstpci->attr->pcidev.bus, firstpci->attr->pcidev.dev, firstpci->attr->pcidev.func);
    d.obj(hwloc_get_pcidev_by_busidstring(t, busid));
  }
  return d.h;
}

}  // extern "C"

namespace {

typedef uint64_t (*RdFn)(hwloc_topology_t, uint64_t, uint64_t, uint64_t);
struct RdKind { const char *name; RdFn fn; int weight; bool lazy; };   // lazy: touches the lazily refreshed distances / memattr caches
const RdKind RD[] = {
    {"walk", c17_rd_walk, 2, false},       {"levels", c17_rd_levels, 2, false},     {"covering", c17_rd_covering, 3, false},
    {"inside", c17_rd_inside, 3, false},   {"ancestor", c17_rd_ancestor, 3, false}, {"closest", c17_rd_closest, 2, false},
    {"sets", c17_rd_sets, 3, false},       {"distrib", c17_rd_distrib, 2, false},   {"locality", c17_rd_locality, 2, false},
    {"typeprint", c17_rd_typeprint, 3, false}, {"dist", c17_rd_dist, 6, true},      {"memattr", c17_rd_memattr, 8, true},
    {"localnodes", c17_rd_localnodes, 3, true}, {"cpukinds", c17_rd_cpukinds, 3, false}, {"xmlbuf", c17_rd_xmlbuf, 3, true},
    {"synth", c17_rd_synth, 2, false},     {"infos", c17_rd_infos, 1, false},       {"io", c17_rd_io, 1, false},
};
const int NRD = sizeof RD / sizeof *RD;
int rd_index(const std::string &k) { for (int i = 0; i < NRD; i++) if (k == RD[i].name) return i; return -1; }

// ------------------------------------------------------------------------------------ sources
const char *const SYNTH[] = {
    "pack:2 numa:2 core:2 pu:2", "numa:2 pack:2 l3:1 core:3 pu:1", "group:2 pack:2 [numa] core:2 pu:2", "pack:3 [numa] [numa] l2:2 core:1 pu:2",
    "numa:4 core:2 pu:1", "pack:2 [numa(memory=1GB)] core:2 [numa(memory=512MB)] pu:2", "pack:2 core:3 pu:3", "pu:2", "core:2 pu:2",
    "pack:2 [numa(memory=1GB)] l3:1 core:3 pu:2", "numa:2 l3:2 l2:2 l1d:1 core:1 pu:2", "pack:4 numa:2 l3:2 core:2 pu:2", "group:2 numa:4 core:4 pu:2",
    "pack:2 die:2 numa:1 l2:2 core:2 pu:1", "numa:3(indexes=2,0,1) core:3 pu:2"};
const int NSYNTH = sizeof SYNTH / sizeof *SYNTH;
// sources whose shape guarantees that the self-test history (distances on NUMA nodes + memattr values, then restrict) keeps >= 2 objects
const char *const SYNTH_SELFTEST[] = {"pack:2 numa:2 core:2 pu:2", "numa:4 core:2 pu:1", "group:2 numa:4 core:4 pu:2", "pack:4 numa:2 l3:2 core:2 pu:2"};

const char *const SNAPSHOTS[] = {"2i386-2c-nohugepage", "2arm-2c", "8ia64-2n2s2c", "fakeheterocpunuma", "4fake-4gr1nu1pu", "2ps3-2t", "8em64t-2s2ca2c", "16amd64-8n2c",
                                 "16em64t-4s2c2t", "20s390-2g6s4c", "8em64t-2s4c-asymcaches", "2i386-2t-hugepagesizecount", "16ia64-8n2s",
                                 "fakememinitiators-1np2c+1npp+gi", "20em64t-hybrid-1p6c2t+2ca4co1t", "16amd64-4n4c-cgroup-distance-merge"};
const int NSNAP = sizeof SNAPSHOTS / sizeof *SNAPSHOTS;
const char *const SNAPSHOTS_BIG[] = {"256ia64-64n2s2c", "256ppc-8n8s4t", "128ia64-17n4s2c"};   // > 256 PUs or wide masks: _nr_maps_allocated grows

std::string data_root() {
  const char *e = getenv("HWSIM_REPO");
  std::string r = e && *e ? e : "/repo";
  struct stat st;
  if (stat((r + "/tests/hwloc/xml").c_str(), &st)) r = "/repo";   // scratch copies of hwloc/ and include/ only: test data stays in /repo
  return r;
}
std::vector<std::string> xml_corpus() {
  std::vector<std::string> v; std::string dir = data_root() + "/tests/hwloc/xml";
  DIR *d = opendir(dir.c_str());
  if (d) { struct dirent *e; while ((e = readdir(d)) != nullptr) { std::string n = e->d_name; if (n.size() > 4 && n.substr(n.size() - 4) == ".xml") v.push_back(n); } closedir(d); }
  std::sort(v.begin(), v.end());
  return v;
}
std::string read_file(const std::string &p) { std::ifstream f(p, std::ios::binary); std::ostringstream s; s << f.rdbuf(); return s.str(); }

// ------------------------------------------------------------------------------------ modifying ops (main task in A, own topology in B)
struct TopoState { hwloc_topology_t t = nullptr; bool restricted = false; unsigned nmisc = 0, ndist = 0, nattr = 0; bool invalidating = false; };

const char *const MOD_KINDS[] = {"restrict", "insert_misc", "dist_add", "memattr_register", "memattr_set", "cpukinds_register", "add_info"};

uint64_t apply_mod(TopoState &ts, const Op &op) {
  hwloc_topology_t t = ts.t; Dg d; std::string k = op.s("k");
  uint64_t a = op.u("a"), b = op.u("b"), c = op.u("c");
  if (k == "restrict") {
    hwloc_bitmap_t s = hwloc_bitmap_alloc(); unsigned long fl = (unsigned long)op.i("fl");
    bool bynode = fl & HWLOC_RESTRICT_FLAG_BYNODESET;
    hwloc_const_bitmap_t all = bynode ? hwloc_topology_get_topology_nodeset(t) : hwloc_topology_get_topology_cpuset(t);
    int kk = 0, keep = (int)op.i("keep", 3);
    for (int i = hwloc_bitmap_first(all); i >= 0; i = hwloc_bitmap_next(all, i), kk++) if ((int)(mix2(a | 1, (uint64_t)kk) % 4) < keep) hwloc_bitmap_set(s, (unsigned)i);
    if (hwloc_bitmap_iszero(s)) hwloc_bitmap_set(s, (unsigned)hwloc_bitmap_first(all));
    if (bynode) fl &= ~(unsigned long)HWLOC_RESTRICT_FLAG_REMOVE_CPULESS; else fl &= ~(unsigned long)HWLOC_RESTRICT_FLAG_REMOVE_MEMLESS;
    bool changes = !hwloc_bitmap_isequal(s, all);
    int rc = hwloc_topology_restrict(t, s, fl); d.err(rc); d.bm(s);
    hwloc_bitmap_free(s);
    if (!rc && changes) { ts.restricted = true; ts.invalidating = true; }
  } else if (k == "insert_misc") {
    char nm[32]; snprintf(nm, sizeof nm, "hwsimmisc%u", ts.nmisc++);
    hwloc_obj_t o = hwloc_topology_insert_misc_object(t, pick_obj(t, a), nm); d.obj(o);
  } else if (k == "dist_add") {
    // objects of one level, preferring NUMA nodes / a level chosen by `a`
    int depth = hwloc_topology_get_depth(t); int dd = (a % 3 == 0) ? HWLOC_TYPE_DEPTH_NUMANODE : (int)((a >> 2) % (uint64_t)depth);
    unsigned n = hwloc_get_nbobjs_by_depth(t, dd);
    if (n < 2) { dd = depth - 1; n = hwloc_get_nbobjs_by_depth(t, dd); }
    unsigned nb = std::min<unsigned>(n, 2 + (unsigned)(b % 7));
    if (nb < 2) { d.u(0x736b6970ULL); return d.h; }
    std::vector<hwloc_obj_t> objs; std::vector<hwloc_uint64_t> vals(nb * nb);
    unsigned stride = std::max(1u, n / nb);
    for (unsigned i = 0; i < nb; i++) objs.push_back(hwloc_get_obj_by_depth(t, dd, (i * stride) % n));
    bool bw = c & 1;
    for (unsigned i = 0; i < nb; i++) for (unsigned j = 0; j < nb; j++) vals[i * nb + j] = i == j ? (bw ? 1000 : 10) : (bw ? 100 + mix2(c, i * 16 + j) % 400 : 11 + mix2(c, i * 16 + j) % 30);
    char nm[32]; snprintf(nm, sizeof nm, "hwsimdist%u", ts.ndist % 2);
    unsigned long kind = HWLOC_DISTANCES_KIND_FROM_USER | (bw ? HWLOC_DISTANCES_KIND_VALUE_BANDWIDTH : HWLOC_DISTANCES_KIND_VALUE_LATENCY);
    hwloc_distances_add_handle_t h = hwloc_distances_add_create(t, (c & 2) ? nullptr : nm, kind, 0);
    if (!h) { d.err(-1); return d.h; }
    int rc = hwloc_distances_add_values(t, h, nb, objs.data(), vals.data(), 0); d.err(rc);
    if (!rc) { rc = hwloc_distances_add_commit(t, h, 0); d.err(rc); if (!rc) { ts.ndist++; ts.invalidating = true; } }
  } else if (k == "memattr_register") {
    char nm[32]; snprintf(nm, sizeof nm, "hwsimattr%u", ts.nattr % 2);
    static const unsigned long fls[] = {HWLOC_MEMATTR_FLAG_HIGHER_FIRST | HWLOC_MEMATTR_FLAG_NEED_INITIATOR, HWLOC_MEMATTR_FLAG_LOWER_FIRST, HWLOC_MEMATTR_FLAG_LOWER_FIRST | HWLOC_MEMATTR_FLAG_NEED_INITIATOR, HWLOC_MEMATTR_FLAG_HIGHER_FIRST};
    hwloc_memattr_id_t id = 0; int rc = hwloc_memattr_register(t, nm, fls[a % 4], &id); d.err(rc); if (!rc) { d.u(id); ts.nattr++; }
  } else if (k == "memattr_set") {
    // attribute: a custom one if registered, else a built-in that accepts values; initiators only as cpusets
    hwloc_memattr_id_t attr; static const hwloc_memattr_id_t builtin[] = {HWLOC_MEMATTR_ID_BANDWIDTH, HWLOC_MEMATTR_ID_LATENCY, HWLOC_MEMATTR_ID_READ_BANDWIDTH, HWLOC_MEMATTR_ID_WRITE_LATENCY};
    attr = builtin[a % 4];
    if (ts.nattr && (a & 4)) { char nm[32]; snprintf(nm, sizeof nm, "hwsimattr%u", (unsigned)((a >> 3) % std::min(ts.nattr, 2u))); hwloc_memattr_id_t id; if (!hwloc_memattr_get_by_name(t, nm, &id)) attr = id; }
    unsigned long fl = 0; hwloc_memattr_get_flags(t, attr, &fl);
    hwloc_obj_t target = pick_numa(t, b);
    if (!target) { d.u(0x736b6970ULL); return d.h; }
    struct hwloc_location L; hwloc_bitmap_t cs = nullptr;
    if (fl & HWLOC_MEMATTR_FLAG_NEED_INITIATOR) {
      hwloc_obj_t io = pick_normal(t, c);
      if (hwloc_bitmap_iszero(io->cpuset)) io = hwloc_get_root_obj(t);
      cs = hwloc_bitmap_dup(io->cpuset); L.type = HWLOC_LOCATION_TYPE_CPUSET; L.location.cpuset = cs;
    }
    int rc = hwloc_memattr_set_value(t, attr, target, cs ? &L : nullptr, 0, 100 + (c >> 20) % 900); d.err(rc); d.u(attr);
    if (cs) hwloc_bitmap_free(cs);
    if (!rc) ts.invalidating = true;
  } else if (k == "cpukinds_register") {
    if (ts.restricted) { d.u(0x736b6970ULL); return d.h; }   // register-after-restrict reads a stale slot (recorded under C15), not this property's business
    hwloc_bitmap_t s = pick_cpuset(t, 2, a); if (hwloc_bitmap_iszero(s)) hwloc_bitmap_copy(s, hwloc_topology_get_topology_cpuset(t));
    struct hwloc_infos_s infos; struct hwloc_info_s pair; char val[32]; snprintf(val, sizeof val, "v%u", (unsigned)(b % 3));
    pair.name = (char *)"hwsimkind"; pair.value = val; infos.array = &pair; infos.count = 1; infos.allocated = 1;
    int rc = hwloc_cpukinds_register(t, s, (int)(c % 5) - 1, (b & 8) ? nullptr : &infos, 0); d.err(rc);
    hwloc_bitmap_free(s);
  } else if (k == "add_info") {
    char nm[32], val[32]; snprintf(nm, sizeof nm, "hwsimkey%u", (unsigned)(b % 2)); snprintf(val, sizeof val, "val%u", (unsigned)(c % 5));
    d.err(hwloc_obj_add_info(pick_obj(t, a), nm, val));
  } else d.u(0x3f3f3fULL);
  return d.h;
}

Op gen_mod(Rng &g, int forced = -1) {
  int k = forced >= 0 ? forced : (int)g.below(7);
  Op o("mod"); o.sets("k", MOD_KINDS[k]); o.setu("a", g.next() >> 8).setu("b", g.next() >> 8).setu("c", g.next() >> 8);
  if (k == 0) {
    static const unsigned long fls[] = {0, HWLOC_RESTRICT_FLAG_REMOVE_CPULESS, HWLOC_RESTRICT_FLAG_ADAPT_MISC, HWLOC_RESTRICT_FLAG_ADAPT_IO | HWLOC_RESTRICT_FLAG_ADAPT_MISC,
                                        HWLOC_RESTRICT_FLAG_BYNODESET, HWLOC_RESTRICT_FLAG_BYNODESET | HWLOC_RESTRICT_FLAG_REMOVE_MEMLESS, HWLOC_RESTRICT_FLAG_REMOVE_CPULESS | HWLOC_RESTRICT_FLAG_ADAPT_MISC};
    o.set("fl", (int64_t)fls[g.below(7)]); o.set("keep", g.range(1, 3));
  }
  return o;
}

// ------------------------------------------------------------------------------------ loading
struct Env {
  std::string data;                                   // <repo>/tests/hwloc
  std::map<std::string, std::string> xmlbuf;          // file name -> content (read-only during the phase)
};

// src: kind = synth | xml | xmlbuf | fsroot ; returns rc of load (topology destroyed on failure)
int load_topology(const Env &env, TopoState &ts, const std::string &kind, const std::string &val, uint64_t cfgbits, Dg &d) {
  hwloc_topology_t t = nullptr;
  ts = TopoState();
  if (hwloc_topology_init(&t)) { d.err(-1); return -1; }
  unsigned long flags = 0;
  if (cfgbits & 1) flags |= HWLOC_TOPOLOGY_FLAG_INCLUDE_DISALLOWED;
  if ((cfgbits & 2) && (kind == "xml" || kind == "xmlbuf")) flags |= HWLOC_TOPOLOGY_FLAG_IMPORT_SUPPORT;
  d.err(hwloc_topology_set_flags(t, flags));
  switch ((cfgbits >> 4) % 5) {
    case 1: d.err(hwloc_topology_set_all_types_filter(t, HWLOC_TYPE_FILTER_KEEP_ALL)); break;
    case 2: d.err(hwloc_topology_set_io_types_filter(t, HWLOC_TYPE_FILTER_KEEP_IMPORTANT)); break;
    case 3: d.err(hwloc_topology_set_type_filter(t, HWLOC_OBJ_L1ICACHE, HWLOC_TYPE_FILTER_KEEP_ALL)); d.err(hwloc_topology_set_type_filter(t, HWLOC_OBJ_MISC, HWLOC_TYPE_FILTER_KEEP_ALL)); break;
    default: break;
  }
  int rc = 0;
  if (kind == "synth") rc = hwloc_topology_set_synthetic(t, val.c_str());
  else if (kind == "xml") rc = hwloc_topology_set_xml(t, (env.data + "/xml/" + val).c_str());
  else if (kind == "xmlbuf") { auto it = env.xmlbuf.find(val); if (it == env.xmlbuf.end()) rc = -1; else {
      // a quarter of the buffer loads are preceded, on the same handle, by a load of the document cut in the middle: it fails (at set or at load,
      // depending on the parser), the handle is then configured with the whole document. A failed XML load of one task is nobody else's business.
      if (((cfgbits >> 2) & 3) == 2 && it->second.size() > 200) {
        std::string cut = it->second.substr(0, it->second.size() / 2);
        int fa = hwloc_topology_set_xmlbuffer(t, cut.data(), (int)cut.size() + 1); d.err(fa);
        if (!fa) { int fb = hwloc_topology_load(t); d.err(fb); if (!fb) { hwloc_topology_destroy(t); t = nullptr; if (hwloc_topology_init(&t)) { d.err(-1); return -1; } d.err(hwloc_topology_set_flags(t, flags)); } }
      }
      rc = hwloc_topology_set_xmlbuffer(t, it->second.data(), (int)it->second.size() + 1); } }
  else if (kind == "fsroot") {   // HWLOC_FSROOT / HWLOC_COMPONENTS were set by the main task before the phase
    rc = 0;
    // a quarter of the snapshot loads blacklist one discovery phase of the linux component for THIS topology only (the cpu phase is never
    // blacklisted: without it hwloc would fall back to the processor count of the host). The other tasks' loads must not notice.
    if (((cfgbits >> 2) & 3) == 3) { static const char *BL[] = {"linux:memory", "linux:pci", "linux:io", "linux:misc", "linux:annotate"}; d.err(hwloc_topology_set_components(t, HWLOC_TOPOLOGY_COMPONENTS_FLAG_BLACKLIST, BL[(cfgbits / 7) % 5])); }
  }
  else rc = -1;
  d.err(rc);
  if (!rc) { rc = hwloc_topology_load(t); d.err(rc); }
  if (rc) { hwloc_topology_destroy(t); return -1; }
  ts.t = t;
  d.i(hwloc_topology_get_depth(t)); d.i(hwloc_get_nbobjs_by_type(t, HWLOC_OBJ_PU)); d.i(hwloc_get_nbobjs_by_type(t, HWLOC_OBJ_NUMANODE));
  return 0;
}

// object tree only: touches none of the lazily refreshed caches (the XML export below refreshes distances and memattrs, which would
// repair, before the readers start, a cache that hwloc_topology_refresh() wrongly left invalid)
uint64_t tree_digest(hwloc_topology_t t) { Dg d; walk_rec(t, hwloc_get_root_obj(t), d, 0); return d.h; }
uint64_t topo_digest(hwloc_topology_t t) {
  Dg d; walk_rec(t, hwloc_get_root_obj(t), d, 0);
  char *buf = nullptr; int len = 0;
  int rc = hwloc_topology_export_xmlbuffer(t, &buf, &len, 0); d.err(rc);
  if (!rc && buf) { d.u(sched::hash_bytes(buf, (size_t)len)); hwloc_free_xmlbuffer(t, buf); }
  return d.h;
}

// ------------------------------------------------------------------------------------ tasks
struct POp { int kind; uint64_t a, b, c; const Op *op; };   // pre-decoded: tasks do not parse plan text
enum { B_NEW = 100, B_MOD, B_EXPORT, B_CONSULT, B_DUP, B_DESTROY, B_LOCKPAIR, B_DIFF };

// never generated: only hand-written plans use it, to demonstrate that the scheduler reports a deadlock instead of hanging
pthread_mutex_t g_demo_mutex[2] = {PTHREAD_MUTEX_INITIALIZER, PTHREAD_MUTEX_INITIALIZER};
volatile unsigned g_demo_counter[2];

struct TaskCtx {
  int id = 0;
  const Env *env = nullptr;
  hwloc_topology_t shared = nullptr;     // workload A
  std::vector<POp> ops;
  std::vector<uint64_t> dig;             // one digest per op
  TopoState own;                         // workload B
  std::string xmlpath;                   // private scratch file of the task
};

uint64_t run_b_op(TaskCtx &c, const POp &p) {
  Dg d; TopoState &ts = c.own;
  switch (p.kind) {
    case B_NEW: {
      if (ts.t) { hwloc_topology_destroy(ts.t); ts.t = nullptr; }
      load_topology(*c.env, ts, p.op->s("src"), p.op->s("val"), p.a, d);
      break;
    }
    case B_MOD: if (ts.t) d.u(apply_mod(ts, *p.op)); break;
    case B_EXPORT: {
      if (!ts.t) break;
      switch (p.a % 4) {
        case 0: case 1: d.u(c17_rd_xmlbuf(ts.t, p.a >> 2, 0, 0)); break;
        case 2: d.u(c17_rd_synth(ts.t, p.b, 1, 0)); break;
        default: {   // to a file in the task's scratch area, then load it back and compare
          const std::string &path = c.xmlpath;   // built by the main task: no path-length dependent work inside the phase
          int rc = hwloc_topology_export_xml(ts.t, path.c_str(), 0); d.err(rc);
          if (!rc) {
            hwloc_topology_t t2 = nullptr;
            if (!hwloc_topology_init(&t2)) {
              int r2 = hwloc_topology_set_xml(t2, path.c_str()); d.err(r2);
              if (!r2) { r2 = hwloc_topology_load(t2); d.err(r2); if (!r2) d.u(c17_rd_xmlbuf(t2, 0, 0, 0)); }
              hwloc_topology_destroy(t2);
            }
            unlink(path.c_str());
          }
        }
      }
      break;
    }
    case B_CONSULT: if (ts.t) { int k = (int)(p.a % NRD); d.u(RD[k].fn(ts.t, p.b, p.c, mix2(p.b, p.c))); } break;
    case B_DUP: {
      if (!ts.t) break;
      hwloc_topology_t t2 = nullptr; int rc = hwloc_topology_dup(&t2, ts.t); d.err(rc);
      if (!rc) { d.u(c17_rd_xmlbuf(t2, 0, 0, 0)); if (p.a & 1) { hwloc_topology_destroy(ts.t); ts.t = t2; } else hwloc_topology_destroy(t2); }
      break;
    }
    case B_DIFF: {
      // the diff API works on the task's own topologies but goes through the process-wide component registry and XML callbacks (a diff has no
      // topology to hold a reference): build against an edited duplicate, export to a buffer - which must fail with -1 for a too-complex diff -,
      // load back, apply and un-apply
      if (!ts.t) break;
      hwloc_topology_t t2 = nullptr; int rc = hwloc_topology_dup(&t2, ts.t); d.err(rc); if (rc) break;
      switch (p.a % 4) {
        case 0: break;                                                    // identical: 0 with a NULL diff
        case 1: { hwloc_obj_t n = hwloc_get_obj_by_type(t2, HWLOC_OBJ_NUMANODE, 0); if (n) { n->attr->numanode.local_memory += 4096; for (hwloc_obj_t q = n; q; q = q->parent) q->total_memory += 4096; } break; }   // representable
        default: hwloc_obj_add_info(hwloc_get_root_obj(t2), "C17Extra", "1"); break;   // an added info pair: too complex for a diff
      }
      hwloc_topology_diff_t df = nullptr; rc = hwloc_topology_diff_build(ts.t, t2, 0, &df); d.i(rc);
      unsigned n = 0; for (hwloc_topology_diff_t x = df; x; x = x->generic.next) { n++; d.i((int)x->generic.type); } d.u(n);
      char *xb = nullptr; int xl = 0; errno = 0; int er = hwloc_topology_diff_export_xmlbuffer(df, "c17ref", &xb, &xl); d.err(er);
      if (!er && xb) {
        d.u(sched::hash_bytes(xb, (size_t)xl));
        hwloc_topology_diff_t d2 = nullptr; char *ref = nullptr; int lr = hwloc_topology_diff_load_xmlbuffer(xb, xl, &d2, &ref); d.err(lr);
        if (!lr) { int ar = hwloc_topology_diff_apply(ts.t, d2, 0); d.i(ar); ar = hwloc_topology_diff_apply(ts.t, d2, HWLOC_TOPOLOGY_DIFF_APPLY_REVERSE); d.i(ar); if (d2) hwloc_topology_diff_destroy(d2); free(ref); }
        hwloc_free_xmlbuffer(ts.t, xb);
      }
      if (df) hwloc_topology_diff_destroy(df);
      hwloc_topology_destroy(t2);
      break;
    }
    case B_DESTROY: if (ts.t) { hwloc_topology_destroy(ts.t); ts.t = nullptr; d.u(1); } break;
    case B_LOCKPAIR: {
      int first = (int)(p.a & 1);
      pthread_mutex_lock(&g_demo_mutex[first]); for (int k = 0; k < 50; k++) g_demo_counter[first] = g_demo_counter[first] + 1;
      pthread_mutex_lock(&g_demo_mutex[!first]); g_demo_counter[!first] = g_demo_counter[!first] + 1;
      pthread_mutex_unlock(&g_demo_mutex[!first]); pthread_mutex_unlock(&g_demo_mutex[first]); d.u(1);
      break;
    }
    default: break;
  }
  return d.h;
}

void run_task_ops(TaskCtx &c) {
  c.dig.clear(); c.dig.reserve(c.ops.size());
  for (const POp &p : c.ops) {
    if (p.kind < 100) c.dig.push_back(RD[p.kind].fn(c.shared, p.a, p.b, p.c));
    else c.dig.push_back(run_b_op(c, p));
  }
  if (c.own.t) { hwloc_topology_destroy(c.own.t); c.own.t = nullptr; }
}
void task_entry(void *arg) { run_task_ops(*(TaskCtx *)arg); }

// ------------------------------------------------------------------------------------ the machine
struct SchedMachine : Machine {
  std::vector<std::string> corpus, small_corpus;
  std::map<std::string, std::string> extracted;   // snapshot name -> directory (per process)
  std::string dataroot;

  const char *name() override { return "sched"; }

  void proc_setup(int, const Plan *) override {
    sched::init();
    dataroot = data_root() + "/tests/hwloc";
    load_corpus();
  }
  void load_corpus() {
    corpus = xml_corpus(); small_corpus.clear();
    std::string dir = data_root() + "/tests/hwloc/xml/";
    for (auto &f : corpus) { struct stat st; if (!stat((dir + f).c_str(), &st) && st.st_size <= 64 * 1024) small_corpus.push_back(f); }   // workload B loads several topologies per run
  }

  // ---------------------------------------------------------------- plan generation: a pure function of the seed
  Plan gen(uint64_t seed, const std::string &prop, const std::string &tier, int pclass) override {
    Plan p; p.machine = "sched"; p.prop = prop; p.tier = tier; p.seed = seed;
    p.seth("proc", "class=" + std::to_string(pclass));
    if (corpus.empty()) load_corpus();
    Rng root(seed); Rng cfg = root.sub(1), ops = root.sub(2), mods = root.sub(3), sch = root.sub(4);
    bool selftest = cfg.below(40) == 0;
    bool wlA = selftest || cfg.below(100) < 60;
    int T = selftest ? 2 : (int)cfg.range(2, 4);
    std::string c = std::string("workload=") + (wlA ? "A" : "B") + " selftest=" + (selftest ? "1" : "0") + " tasks=" + std::to_string(T);
    c += " libxml_import=" + std::to_string(cfg.below(2)) + " libxml_export=" + std::to_string(cfg.below(2));
    // ---- schedule
    std::string s;
    uint64_t sseed = sch.next() >> 4;
    if (selftest) s = "strat=pct seed=" + std::to_string(sseed) + " change=- prio=1,0";   // tasks one after the other: the race is decided by happens-before, not by luck
    else {
      int strat = (int)sch.below(10);
      if (strat < 3) {
        int dch = (int)sch.range(1, 5); std::string ch;
        for (int i = 0; i < dch; i++) { uint64_t bits = sch.range(4, 20); uint64_t k = (1ULL << bits) + sch.below(1ULL << bits); ch += (i ? "," : "") + std::to_string(k); }
        std::vector<int> pr; for (int i = 0; i < T; i++) pr.push_back(i);
        for (int i = T - 1; i > 0; i--) std::swap(pr[i], pr[sch.below((uint64_t)i + 1)]);
        std::string ps; for (int i = 0; i < T; i++) ps += (i ? "," : "") + std::to_string(pr[i]);
        s = "strat=pct seed=" + std::to_string(sseed) + " change=" + ch + " prio=" + ps;
      } else if (strat < 8) {
        static const int PS[] = {20, 50, 100, 200, 500, 1000, 2000, 5000};
        s = "strat=rand seed=" + std::to_string(sseed) + " p=" + std::to_string(PS[sch.below(8)]) + " maxsw=" + std::to_string(tier == "thorough" ? 6000 : 2500);
      } else {
        static const int QS[] = {1, 2, 3, 5, 10, 30};
        s = "strat=wrapped seed=" + std::to_string(sseed) + " p=" + std::to_string(QS[sch.below(6)]) + " maxsw=" + std::to_string(tier == "thorough" ? 6000 : 2500);
      }
    }
    if (wlA) {
      // ---- source
      std::string kind, val;
      if (selftest) { kind = "synth"; val = SYNTH_SELFTEST[cfg.below(4)]; }
      else if (cfg.below(2) && !corpus.empty()) { kind = cfg.below(3) ? "xml" : "xmlbuf"; val = corpus[cfg.below(corpus.size())]; }
      else { kind = "synth"; val = SYNTH[cfg.below(NSYNTH)]; }
      p.seth("src", "kind=" + kind + " val=" + enc(val) + " bits=" + std::to_string(cfg.below(64)));
      // ---- modification history (half of the runs: none)
      if (selftest) {
        Op o = gen_mod(mods, 2); for (auto &kv : o.kv) if (kv.first == "a") kv.second = "0"; p.ops.push_back(o);   // distances between NUMA nodes
        p.ops.push_back(gen_mod(mods, 4)); p.ops.push_back(gen_mod(mods, 4));
        Op r = gen_mod(mods, 0); for (auto &kv : r.kv) { if (kv.first == "fl") kv.second = "0"; if (kv.first == "keep") kv.second = "3"; } p.ops.push_back(r);
      } else if (cfg.below(2)) {
        int nm = (int)mods.range(1, 6);
        for (int i = 0; i < nm; i++) p.ops.push_back(gen_mod(mods));
      }
      // ---- reader ops; swarm: a random third of the alphabet is disabled
      std::vector<int> w(NRD);
      int total = 0;
      for (int i = 0; i < NRD; i++) { w[i] = cfg.below(3) == 0 ? 0 : RD[i].weight; if (selftest && RD[i].lazy) w[i] = RD[i].weight * 3; total += w[i]; }
      if (!total) { w[0] = 1; total = 1; }
      for (int t = 0; t < T; t++) {
        int n = (int)ops.range(10, 40);
        if (selftest) n = 12;
        for (int i = 0; i < n; i++) {
          int r = (int)ops.below((uint64_t)total), k = 0; for (; k < NRD; k++) { if (r < w[k]) break; r -= w[k]; }
          if (selftest && i < 2) k = rd_index(i ? "memattr" : "dist");
          Op o("rd"); o.set("t", t).sets("k", RD[k].name).setu("a", ops.next() >> 8).setu("b", ops.next() >> 8).setu("c", ops.next() >> 8);
          if (selftest && i < 2) for (auto &kv : o.kv) if (kv.first == "a") kv.second = i ? "4" : "0";   // memattr targets / distances_get: always refresh
          p.ops.push_back(o);
        }
      }
    } else {
      // ---- workload B: fsroot is process-global, so one snapshot per run (or none)
      bool fs = cfg.below(3) == 0;
      std::string snap = fs ? (cfg.below(12) == 0 ? SNAPSHOTS_BIG[cfg.below(3)] : SNAPSHOTS[cfg.below(NSNAP)]) : "-";
      c += " fsroot=" + enc(snap);
      if (fs && ((seed >> 23) & 3) == 0) c += " wide=1";   // no extra draw: a quarter of the snapshot runs discover the wide-mask variant of the tree
      for (int t = 0; t < T; t++) {
        int ntopo = (int)ops.range(1, 2);
        for (int q = 0; q < ntopo; q++) {
          Op n("b"); n.set("t", t).sets("k", "new");
          int sk = (int)ops.below(fs ? 4 : 3);
          if (sk == 3) n.sets("src", "fsroot").sets("val", snap);
          else if (sk == 0 || small_corpus.empty()) n.sets("src", "synth").sets("val", SYNTH[ops.below(NSYNTH)]);
          else n.sets("src", sk == 1 ? "xml" : "xmlbuf").sets("val", small_corpus[ops.below(small_corpus.size())]);
          n.setu("a", ops.below(64 * 5));
          p.ops.push_back(n);
          int nmore = (int)ops.range(1, 6);
          for (int i = 0; i < nmore; i++) {
            int r = (int)ops.below(10);
            if (r < 4) { Op m = gen_mod(ops); Op o("b"); o.set("t", t).sets("k", "mod"); for (auto &kv : m.kv) o.kv.push_back({kv.first == "k" ? std::string("m") : kv.first, kv.second}); p.ops.push_back(o); }
            else if (r < 7) { Op o("b"); o.set("t", t).sets("k", "export").setu("a", ops.next() >> 8).setu("b", ops.next() >> 8); p.ops.push_back(o); }
            else if (r < 9) { Op o("b"); o.set("t", t).sets("k", "consult").setu("a", ops.next() >> 8).setu("b", ops.next() >> 8).setu("c", ops.next() >> 8); p.ops.push_back(o); }
            else if (ops.below(2)) { Op o("b"); o.set("t", t).sets("k", "dup").setu("a", ops.below(2)); p.ops.push_back(o); }
            else { Op o("b"); o.set("t", t).sets("k", "diff").setu("a", ops.below(4)); p.ops.push_back(o); }
          }
          if (ops.below(3)) { Op o("b"); o.set("t", t).sets("k", "destroy"); p.ops.push_back(o); }
        }
      }
    }
    p.seth("cfg", c);
    p.seth("sched", s);
    return p;
  }

  // ---------------------------------------------------------------- helpers for run()
  static sched::Config parse_sched(const Plan &p) {
    sched::Config c; std::string st = p.hk("sched", "strat", "rand");
    c.strategy = st == "pct" ? sched::S_PCT : st == "wrapped" ? sched::S_WRAPPED : sched::S_RAND;
    c.seed = (uint64_t)p.hki("sched", "seed", 1); c.period = (uint64_t)std::max<int64_t>(1, p.hki("sched", "p", 200));
    c.max_switches = (uint64_t)p.hki("sched", "maxsw", 2500);
    auto list = [](const std::string &s, auto push) { std::istringstream is(s); std::string tok; while (std::getline(is, tok, ',')) if (!tok.empty() && tok != "-") push(strtoull(tok.c_str(), 0, 0)); };
    list(p.hk("sched", "change"), [&](uint64_t v) { c.change.push_back(v); });
    list(p.hk("sched", "prio"), [&](uint64_t v) { c.prio.push_back((int)v); });
    return c;
  }

  // "wide" variant of a snapshot: every sysfs cpumask file (cpumap, *_siblings, *_cpus, shared_cpu_map, local_cpus) is widened to 32 words with CPU 1023 set,
  // which is what a kernel built for 1024 CPUs prints on a machine with one more possible (absent) CPU. hwloc's mask reader then has to grow its word array past the initial
  // 8 entries and publishes the final size in a process-wide static - in every task that discovers such a tree.
  static void widen_masks(const std::string &dir, int depth = 0) {
    if (depth > 12) return;
    DIR *d = opendir(dir.c_str()); if (!d) return;
    std::vector<std::string> names; struct dirent *e; while ((e = readdir(d)) != nullptr) if (strcmp(e->d_name, ".") && strcmp(e->d_name, "..")) names.push_back(e->d_name); closedir(d);
    static const char *MASKS[] = {"cpumap", "thread_siblings", "core_siblings", "core_cpus", "die_cpus", "cluster_cpus", "package_cpus", "book_siblings", "drawer_siblings", "shared_cpu_map", "local_cpus"};
    for (auto &n : names) {
      std::string path = dir + "/" + n; struct stat st; if (lstat(path.c_str(), &st)) continue;
      if (S_ISDIR(st.st_mode)) { widen_masks(path, depth + 1); continue; }
      if (!S_ISREG(st.st_mode) || st.st_size == 0 || st.st_size > 4096) continue;
      bool is = false; for (auto m : MASKS) if (n == m) is = true; if (!is) continue;
      std::ifstream in(path); std::string c((std::istreambuf_iterator<char>(in)), std::istreambuf_iterator<char>()); in.close();
      std::string body = c; while (!body.empty() && (body.back() == '\n' || body.back() == ' ')) body.pop_back();
      bool hex = !body.empty(); for (char ch : body) if (!isxdigit((unsigned char)ch) && ch != ',') hex = false; if (!hex) continue;
      // the kernel prints 32-bit words; the first word of the original may be shorter than 8 digits: pad it first
      size_t comma = body.find(','); std::string firstw = body.substr(0, comma); std::string rest = comma == std::string::npos ? "" : body.substr(comma);
      while (firstw.size() < 8) firstw = "0" + firstw;
      // the top word names one more CPU (1023) that has no cpuN directory - a possible-but-absent CPU, which real masks of hot-pluggable machines do
      // contain: leading all-zero words would simply be skipped by the reader, a set high bit makes it keep all 32 words
      std::string wide = "80000000,"; for (int i = 0; i < 23; i++) wide += "00000000,"; wide += firstw + rest + "\n";
      chmod(path.c_str(), 0600); std::ofstream out(path, std::ios::trunc); out << wide;
    }
  }

  std::string snapshot_dir(const std::string &name0, bool wide = false) {
    std::string name = name0 + (wide ? "+wide" : "");
    auto it = extracted.find(name);
    if (it != extracted.end()) return it->second;
    if (wide) { std::string plain = snapshot_dir(name0, false); std::string dir;
      if (!plain.empty()) { std::string base = std::string(scratch_dir()) + "/snap." + std::to_string(extracted.size()) + "w"; std::string cmd = "cp -a '" + plain + "' '" + base + "' 2>/dev/null"; if (!system(cmd.c_str())) { widen_masks(base); dir = base; } }
      extracted[name] = dir; return dir; }
    std::string tarball = dataroot + "/linux/" + name0 + ".tar.bz2", base = std::string(scratch_dir()) + "/snap." + std::to_string(extracted.size());
    struct stat st;
    std::string dir;
    if (!stat(tarball.c_str(), &st)) {
      mkdir(base.c_str(), 0700);
      std::string cmd = "tar xjf '" + tarball + "' -C '" + base + "' 2>/dev/null";
      if (!system(cmd.c_str())) {   // the tarball holds one top-level directory (not always named after the tarball)
        DIR *d = opendir(base.c_str());
        if (d) { struct dirent *e; std::vector<std::string> subs; while ((e = readdir(d)) != nullptr) if (e->d_name[0] != '.') subs.push_back(e->d_name); closedir(d); std::sort(subs.begin(), subs.end()); if (!subs.empty()) dir = base + "/" + subs[0]; }
      }
    }
    extracted[name] = dir;
    return dir;
  }

  void report_phase(Run &r, const sched::Result &res, bool selftest, const char *wl) {
    r.count("probe.context_switches", res.switches + res.forced_switches); r.count("probe.accesses", res.accesses); r.count("probe.steps", res.steps);
    r.count("probe.wrapped_calls", res.wrapped_calls); r.count("probe.mutex_acquires_in_phase", res.mutex_acquires); r.count("probe.mutex_blocked", res.mutex_blocks);
    r.count("static_writes_in_phase", res.static_writes);
    if (res.shadow_overflow) r.count("shadow_overflow", res.shadow_overflow);
    if (res.deadlock) r.fail0("sched.deadlock", "every unfinished task is blocked: %s(after %llu steps, %llu switches)", res.deadlock_info.c_str(), (unsigned long long)res.steps, (unsigned long long)(res.switches + res.forced_switches));
    bool heap = false;
    const sched::Race *first_bad = nullptr;
    for (auto &rc : res.races) {
      if (rc.is_static && rc.idempotent) { r.count("idempotent_static_init." + rc.sym); r.count("probe.idempotent_static_race_cells"); continue; }
      if (!rc.is_static) heap = true;
      if (!first_bad) first_bad = &rc;
    }
    if (selftest) { r.count("selftest.runs"); if (heap) r.count("selftest.races_found"); r.count("selftest.race_classes", res.races.size()); return; }
    if (first_bad) {
      const sched::Race &b = *first_bad;
      std::string others; int n = 0; for (auto &rc : res.races) if (&rc != first_bad && !(rc.is_static && rc.idempotent) && n++ < 6) others += " " + rc.cls;
      r.fail0(b.cls, "workload %s: data race on %s: task %d %s in %s vs task %d %s in %s, unordered by happens-before (%llu racing access pairs)%s%s%s%s", wl,
              b.is_static ? ("static " + b.sym).c_str() : "heap memory", b.task[0], b.wr[0] ? "write" : "read", b.fn[0].c_str(), b.task[1], b.wr[1] ? "write" : "read", b.fn[1].c_str(),
              (unsigned long long)b.cells, b.detail.empty() ? "" : "; ", b.detail.c_str(), others.empty() ? "" : "; other racing classes in this run:", others.c_str());
    }
  }

  // ---------------------------------------------------------------- run = interpret the plan
  void run(const Plan &p, Run &r) override {
    bool selftest = p.hki("cfg", "selftest", 0) != 0;
    bool wlA = p.hk("cfg", "workload", "A") == "A";
    int T = (int)std::min<int64_t>(4, std::max<int64_t>(1, p.hki("cfg", "tasks", 2)));
    sched::restore_statics();
    setenv("HWLOC_LIBXML_IMPORT", p.hki("cfg", "libxml_import", 1) ? "1" : "0", 1);
    setenv("HWLOC_LIBXML_EXPORT", p.hki("cfg", "libxml_export", 1) ? "1" : "0", 1);
    unsetenv("HWLOC_FSROOT"); unsetenv("HWLOC_COMPONENTS"); unsetenv("HWLOC_DUMPED_HWDATA_DIR");
    sched::Config sc = parse_sched(p);
    Env env; env.data = dataroot;
    auto want_buf = [&](const std::string &f) { if (!env.xmlbuf.count(f)) env.xmlbuf[f] = read_file(dataroot + "/xml/" + f); };
    std::vector<TaskCtx> tc(T);
    for (int i = 0; i < T; i++) { tc[i].id = i; tc[i].env = &env; tc[i].xmlpath = std::string(scratch_dir()) + "/t" + std::to_string(i) + ".xml"; }
    r.count(wlA ? "probe.workloadA_runs" : "probe.workloadB_runs");
    uint64_t srchash = 0;

    if (wlA) {
      std::string kind = p.hk("src", "kind", "synth"), val = dec(p.hk("src", "val", "pu%3a2"));
      srchash = hash_str(kind + ":" + val);
      if (kind == "xmlbuf") want_buf(val);
      TopoState ts; Dg ld;
      r.curop = "load";
      int rc = load_topology(env, ts, kind, val, (uint64_t)p.hki("src", "bits", 0), ld);
      r.ev("load %s %s rc=%d dg=%016llx", kind.c_str(), val.c_str(), rc, (unsigned long long)ld.h);
      if (rc) { r.count("probe.load_failed"); return; }
      int idx = 0, nmods = 0;
      for (auto &op : p.ops) {
        r.curopidx = idx++;
        if (op.kind == "mod") {
          r.curop = "mod." + op.s("k");
          uint64_t dg = apply_mod(ts, op); nmods++; r.nops++;
          r.ev("mod %s dg=%016llx", op.s("k").c_str(), (unsigned long long)dg);
        } else if (op.kind == "rd") {
          int k = rd_index(op.s("k")); if (k < 0) continue;
          POp po; po.kind = k; po.a = op.u("a"); po.b = op.u("b"); po.c = op.u("c"); po.op = &op;
          tc[(size_t)(op.u("t") % (uint64_t)T)].ops.push_back(po);
        }
      }
      r.curopidx = -1;
      if (nmods) r.count(ts.invalidating ? "probe.history_invalidated_lazy_caches" : "probe.history_without_invalidation");
      if (!selftest) { r.curop = "refresh"; int rr = hwloc_topology_refresh(ts.t); r.ev("refresh rc=%d", rr); }
      uint64_t D = 0;
      if (!selftest) { r.curop = "digest"; D = tree_digest(ts.t); r.ev("D=%016llx", (unsigned long long)D); }
      std::vector<std::pair<sched::TaskFn, void *>> tasks;
      for (int i = 0; i < T; i++) { tc[i].shared = ts.t; tasks.push_back({task_entry, &tc[i]}); }
      r.curop = "phaseA";
      sched::Result res = sched::run_phase(sc, tasks);
      report_phase(r, res, selftest, "A (shared readers)");
      uint64_t lazy_ops = 0; for (auto &c : tc) for (auto &po : c.ops) { r.nops++; if (RD[po.kind].lazy) lazy_ops++; }
      if (selftest) { r.ev("selftest"); hwloc_topology_destroy(ts.t); return; }
      if (ts.invalidating) r.count("probe.lazy_refresh_branch_not_taken", lazy_ops);
      r.curop = "digest";
      uint64_t Dfull = topo_digest(ts.t);   // full digest (with XML export) right after the concurrent phase ...
      // single-threaded replay on the same topology: same answers, topology untouched
      r.curop = "replayA";
      for (int i = 0; i < T; i++) {
        std::vector<uint64_t> conc = tc[i].dig;
        run_task_ops(tc[i]);
        for (size_t k = 0; k < tc[i].ops.size(); k++) {
          if (k >= conc.size() || conc[k] != tc[i].dig[k])
            r.fail0(std::string("sched.result_differs:") + RD[tc[i].ops[k].kind].name, "reader task %d, op #%zu (%s): digest %016llx in the concurrent phase, %016llx in the single-threaded replay on the same topology",
                    i + 1, k, RD[tc[i].ops[k].kind].name, (unsigned long long)(k < conc.size() ? conc[k] : 0), (unsigned long long)tc[i].dig[k]);
          r.ev("t%d %s %016llx", i + 1, RD[tc[i].ops[k].kind].name, (unsigned long long)tc[i].dig[k]);
        }
      }
      r.curop = "digest";
      uint64_t D2 = tree_digest(ts.t), Dfull2 = topo_digest(ts.t);   // ... and again after the single-threaded replay
      if (Dfull2 != Dfull) r.fail0("sched.topology_changed", "full topology digest %016llx after the reader phase, %016llx after the single-threaded replay of the same calls", (unsigned long long)Dfull, (unsigned long long)Dfull2);
      if (D2 != D) r.fail0("sched.topology_changed", "topology digest %016llx before the reader phase, %016llx after it (readers must not modify the topology)", (unsigned long long)D, (unsigned long long)D2);
      r.ev("phase steps=%llu switches=%llu forced=%llu sig=%016llx", (unsigned long long)res.steps, (unsigned long long)res.switches, (unsigned long long)res.forced_switches, (unsigned long long)res.signature);
      r.distinct("state", mix2(mix2(srchash, 0xA), res.signature)); r.distinct("interleaving", res.signature);
      hwloc_topology_destroy(ts.t);
      return;
    }

    // ---------------- workload B
    std::string snap = dec(p.hk("cfg", "fsroot", "-"));
    std::string fsdir;
    bool wide = p.hki("cfg", "wide", 0) != 0;
    if (snap != "-") { fsdir = snapshot_dir(snap, wide); if (fsdir.empty()) r.count("snapshot_unavailable"); else if (wide) r.count("probe.workloadB_wide_mask_runs"); }
    if (!fsdir.empty()) {
      setenv("HWLOC_FSROOT", fsdir.c_str(), 1); setenv("HWLOC_COMPONENTS", "linux,stop", 1); setenv("HWLOC_DUMPED_HWDATA_DIR", "/var/run/hwloc", 1);
      r.count("probe.workloadB_fsroot_runs");
    }
    srchash = hash_str(snap);
    for (auto &op : p.ops) {
      if (op.kind != "b") continue;
      std::string k = op.s("k"); POp po; po.a = op.u("a"); po.b = op.u("b"); po.c = op.u("c"); po.op = &op;
      if (k == "new") {
        po.kind = B_NEW;
        if (op.s("src") == "xmlbuf") want_buf(op.s("val"));
        if (op.s("src") == "fsroot" && fsdir.empty()) continue;   // never discover the machine we run on
        srchash = mix2(srchash, hash_str(op.s("src") + op.s("val")));
      } else if (k == "mod") po.kind = B_MOD;
      else if (k == "export") po.kind = B_EXPORT;
      else if (k == "consult") po.kind = B_CONSULT;
      else if (k == "dup") po.kind = B_DUP;
      else if (k == "diff") po.kind = B_DIFF;
      else if (k == "destroy") po.kind = B_DESTROY;
      else if (k == "lockpair") po.kind = B_LOCKPAIR;
      else continue;
      tc[(size_t)(op.u("t") % (uint64_t)T)].ops.push_back(po);
    }
    // B_MOD ops carry the modification kind under "m": rewrite into an Op apply_mod understands
    std::vector<Op> modops; modops.reserve(p.ops.size());
    for (auto &c : tc) for (auto &po : c.ops) if (po.kind == B_MOD) { Op m("mod"); for (auto &kv : po.op->kv) m.kv.push_back({kv.first == "m" ? std::string("k") : kv.first == "k" ? std::string("bk") : kv.first, kv.second}); modops.push_back(m); po.op = &modops.back(); }
    std::vector<std::pair<sched::TaskFn, void *>> tasks;
    for (int i = 0; i < T; i++) tasks.push_back({task_entry, &tc[i]});
    r.curop = "phaseB";
    sched::Result res = sched::run_phase(sc, tasks);
    report_phase(r, res, false, "B (independent topologies)");
    if (res.mutex_blocks) r.count("probe.components_mutex_contended_runs");
    r.curop = "replayB";
    sched::restore_statics();   // the replay starts from the same process-wide state as the phase did
    for (int i = 0; i < T; i++) {
      std::vector<uint64_t> conc = tc[i].dig;
      run_task_ops(tc[i]);
      for (size_t k = 0; k < tc[i].ops.size(); k++) {
        r.nops++;
        std::string kname = tc[i].ops[k].kind == B_MOD ? "mod" : tc[i].ops[k].op->s("k");
        if (k >= conc.size() || conc[k] != tc[i].dig[k])
          r.fail0("sched.result_differs:b." + kname, "task %d, op #%zu (%s): digest %016llx when run concurrently with other topologies, %016llx in the single-threaded replay",
                  i + 1, k, kname.c_str(), (unsigned long long)(k < conc.size() ? conc[k] : 0), (unsigned long long)tc[i].dig[k]);
        r.ev("t%d %s %016llx", i + 1, kname.c_str(), (unsigned long long)tc[i].dig[k]);
      }
    }
    r.ev("phase steps=%llu switches=%llu forced=%llu sig=%016llx", (unsigned long long)res.steps, (unsigned long long)res.switches, (unsigned long long)res.forced_switches, (unsigned long long)res.signature);
    r.distinct("state", mix2(mix2(srchash, 0xB), res.signature)); r.distinct("interleaving", res.signature);
  }
};

}  // namespace

int main(int argc, char **argv) { SchedMachine m; return worker_main(argc, argv, m); }
