// hwsim scheduler runtime (C17).  NOT compiled with -fsanitize=thread: this file *is* the runtime
// the instrumented code calls into.
//
//  (a) __tsan_* callbacks  = pre-emption points + access log
//  (b) baton scheduler     = tasks are real pthreads, exactly one holds the baton, the plan decides
//  (c) happens-before race detector: vector clocks, byte-exact shadow, reset at malloc/free
//
// Outside the concurrent phase (g_active == false) every callback returns after one load.
#include "sched_rt.h"
#include "../core/hwsim.h"
#include <pthread.h>
#include <semaphore.h>
#include <elf.h>
#include <link.h>
#include <sys/mman.h>
#include <sys/stat.h>
#include <fcntl.h>
#include <unistd.h>
#include <malloc.h>
#include <errno.h>
#include <algorithm>
#include <map>

extern "C" {
void *__libc_malloc(size_t);
void __libc_free(void *);
void *__libc_calloc(size_t, size_t);
void *__libc_realloc(void *, size_t);
void *__libc_memalign(size_t, size_t);
void *__real_memcpy(void *, const void *, size_t);
void *__real_memmove(void *, const void *, size_t);
void *__real_memset(void *, int, size_t);
void __real_qsort(void *, size_t, size_t, int (*)(const void *, const void *));
int __real_pthread_mutex_lock(pthread_mutex_t *);
int __real_pthread_mutex_unlock(pthread_mutex_t *);
char *__real_getenv(const char *);
}

namespace {

using hwsim::mix2;
using hwsim::mix64;
using namespace hwsim::sched;

const int MAXT = 8;
enum { ST_RUNNABLE = 0, ST_BLOCKED = 1, ST_FINISHED = 2 };
enum { K_ACCESS = 0, K_FUNC = 1, K_WRAPPED = 2 };

struct MutexRec;
struct Task {
  int id = 0;
  pthread_t th;
  sem_t sem;
  int state = ST_FINISHED;
  MutexRec *blocked_on = nullptr;
  int prio = 0;
  uint32_t vc[MAXT];
  uintptr_t stk_lo = 0, stk_hi = 0;
  int pend = -1;  // index of this task's static write whose new value is still to be read
  TaskFn fn = nullptr;
  void *arg = nullptr;
};

struct MutexRec {
  void *m;
  int owner;  // task id or -1
  uint32_t vc[MAXT];
};

// ------------------------------------------------------------------ shadow
struct Slot { uint64_t key; uint32_t head; uint32_t gen; };
struct Rec { uint64_t pc; uint32_t clk; uint32_t next; uint8_t task, mask, w, pad; uint32_t pad2; };
const uint64_t NSLOTS_LOG = 21, NSLOTS = 1ull << NSLOTS_LOG;
const uint32_t NRECS = 1u << 23;
Slot *g_slots;
Rec *g_recs;
uint32_t g_nrec = 1, g_freerec = 0, g_gen = 0;
uint64_t g_used_slots = 0, g_overflow = 0;

// writes to static storage in the phase, in execution order, with the value before and after
struct SW { uint64_t addr, pc; uint8_t size, task, have_new, pad; uint8_t old[16], neu[16]; };
const uint32_t NSW = 1u << 15;
SW *g_sw;
uint32_t g_nsw = 0;
uint64_t g_sw_dropped = 0;

struct RaceEv { uint64_t key, addr, pc1, pc2, count; uint8_t mask, w1, w2, t1, t2, is_static; };
const uint32_t NRACE = 4096;
RaceEv *g_race;
uint32_t g_nrace = 0;
uint64_t g_race_total = 0, g_race_dropped = 0;

// ------------------------------------------------------------------ scheduler state
volatile bool g_active = false;
__thread Task *tl_task = nullptr;
__thread int tl_in_rt = 0;
Task g_tasks[MAXT];
int g_nt = 0;
MutexRec g_mutexes[64];
int g_nmutex = 0;
uint64_t g_step, g_switches, g_forced, g_accesses, g_wrapped, g_sig, g_mblocks, g_macq;
Config g_cfg;
size_t g_next_change = 0;
bool g_deadlock = false;
std::string *g_deadlock_info;
sem_t g_main_sem;
uintptr_t g_stat_lo = 0, g_stat_hi = 0;

// ------------------------------------------------------------------ symbols
struct Sym { uintptr_t addr; uint64_t size; std::string name; uint64_t nhash; bool hw; std::vector<uint8_t> image; };
std::vector<Sym> *g_funcs, *g_objs;
bool g_inited = false;

const char *HW_FILES[] = {"topology.c", "traversal.c", "distances.c", "memattrs.c", "cpukinds.c", "components.c", "bind.c", "bitmap.c",
                          "pci-common.c", "diff.c", "shmem.c", "misc.c", "base64.c", "topology-noos.c", "topology-synthetic.c",
                          "topology-xml.c", "topology-xml-nolibxml.c", "topology-xml-libxml.c", "topology-pci.c", "topology-linux.c",
                          "topology-hardwired.c", "topology-x86.c"};

bool is_hw_file(const std::string &f) {
  size_t sl = f.rfind('/');
  std::string b = sl == std::string::npos ? f : f.substr(sl + 1);
  for (const char *h : HW_FILES) if (b == h) return true;
  return false;
}

int find_sym(const std::vector<Sym> &v, uintptr_t a) {
  size_t lo = 0, hi = v.size();
  while (lo < hi) { size_t mid = (lo + hi) / 2; if (v[mid].addr <= a) lo = mid + 1; else hi = mid; }
  return (int)lo - 1;
}
inline int func_index(uintptr_t pc) { return find_sym(*g_funcs, pc); }
inline uint64_t func_hash(uintptr_t pc) { int i = func_index(pc); return i < 0 ? 0 : (*g_funcs)[i].nhash; }
std::string func_name(uintptr_t pc) { int i = func_index(pc); return i < 0 ? "?" : (*g_funcs)[i].name; }
std::string obj_name(uintptr_t a) {
  int i = find_sym(*g_objs, a);
  if (i < 0) return "?static";
  const Sym &s = (*g_objs)[i];
  uint64_t off = a - s.addr;
  if (off == 0) return s.name;
  if (off >= std::max<uint64_t>(s.size, 1)) return s.name + "+beyond";
  return s.name + "+" + std::to_string(off);
}

void load_symbols() {
  g_funcs = new std::vector<Sym>();
  g_objs = new std::vector<Sym>();
  int fd = open("/proc/self/exe", O_RDONLY);
  if (fd < 0) return;
  struct stat st;
  if (fstat(fd, &st)) { close(fd); return; }
  unsigned char *base = (unsigned char *)mmap(nullptr, st.st_size, PROT_READ, MAP_PRIVATE, fd, 0);
  close(fd);
  if (base == MAP_FAILED) return;
  Elf64_Ehdr *eh = (Elf64_Ehdr *)base;
  Elf64_Shdr *sh = (Elf64_Shdr *)(base + eh->e_shoff);
  for (int i = 0; i < eh->e_shnum; i++) {
    if (sh[i].sh_type != SHT_SYMTAB) continue;
    Elf64_Sym *sy = (Elf64_Sym *)(base + sh[i].sh_offset);
    size_t n = sh[i].sh_size / sizeof(Elf64_Sym);
    const char *str = (const char *)(base + sh[sh[i].sh_link].sh_offset);
    std::string curfile;
    size_t first_global = sh[i].sh_info;
    for (size_t k = 0; k < n; k++) {
      int type = ELF64_ST_TYPE(sy[k].st_info);
      if (k >= first_global) curfile.clear();
      if (type == STT_FILE) { curfile = str + sy[k].st_name; continue; }
      if (sy[k].st_shndx == SHN_UNDEF || sy[k].st_shndx >= eh->e_shnum) continue;
      const Elf64_Shdr &sec = sh[sy[k].st_shndx];
      if (type == STT_FUNC) {
        Sym s; s.addr = sy[k].st_value; s.size = sy[k].st_size; s.name = str + sy[k].st_name; s.nhash = hwsim::hash_str(s.name); s.hw = false;
        g_funcs->push_back(s);
      } else if (type == STT_OBJECT) {
        if (!(sec.sh_flags & SHF_WRITE) || !(sec.sh_flags & SHF_ALLOC) || (sec.sh_flags & SHF_TLS)) continue;
        Sym s; s.addr = sy[k].st_value; s.size = sy[k].st_size; s.name = str + sy[k].st_name; s.nhash = hwsim::hash_str(s.name);
        s.hw = !curfile.empty() && is_hw_file(curfile);
        g_objs->push_back(s);
      }
    }
  }
  munmap(base, st.st_size);
  auto byaddr = [](const Sym &a, const Sym &b) { return a.addr < b.addr || (a.addr == b.addr && a.name < b.name); };
  std::sort(g_funcs->begin(), g_funcs->end(), byaddr);
  std::sort(g_objs->begin(), g_objs->end(), byaddr);
  for (auto &s : *g_objs) if (s.hw && s.size) { s.image.assign((uint8_t *)s.addr, (uint8_t *)s.addr + s.size); }
}

int phdr_cb(struct dl_phdr_info *info, size_t, void *) {
  // first callback = the executable itself
  for (int i = 0; i < info->dlpi_phnum; i++) {
    const ElfW(Phdr) &ph = info->dlpi_phdr[i];
    if (ph.p_type == PT_LOAD && (ph.p_flags & PF_W)) {
      uintptr_t lo = info->dlpi_addr + ph.p_vaddr, hi = lo + ph.p_memsz;
      if (!g_stat_lo || lo < g_stat_lo) g_stat_lo = lo;
      if (hi > g_stat_hi) g_stat_hi = hi;
    }
  }
  return 1;
}

inline bool is_static_addr(uintptr_t a) { return a - g_stat_lo < g_stat_hi - g_stat_lo; }

// ------------------------------------------------------------------ shadow operations
inline Slot *find_slot(uint64_t key, bool insert) {
  uint64_t h = (key * 0x9E3779B97F4A7C15ULL) >> (64 - NSLOTS_LOG);
  for (;;) {
    Slot *s = &g_slots[h];
    if (s->gen != g_gen) {
      if (!insert) return nullptr;
      if (g_used_slots > NSLOTS * 7 / 10) return nullptr;
      s->key = key; s->head = 0; s->gen = g_gen; g_used_slots++;
      return s;
    }
    if (s->key == key) return s;
    h = (h + 1) & (NSLOTS - 1);
  }
}

inline uint32_t alloc_rec() {
  if (g_freerec) { uint32_t i = g_freerec; g_freerec = g_recs[i].next; return i; }
  if (g_nrec >= NRECS) return 0;
  return g_nrec++;
}

void report_race(Task *t, uint64_t key, uint8_t ov, const Rec &r, bool w, uint64_t pc) {
  g_race_total++;
  uint64_t addr = key << 3;
  bool st = is_static_addr(addr);
  uint64_t k;
  if (st) k = mix2(mix2(key, ov), mix2(r.pc, pc) ^ (uint64_t)(r.w * 2 + w));
  else {
    uint64_t a = (uint64_t)(func_index(r.pc) + 1) * 2 + r.w, b = (uint64_t)(func_index(pc) + 1) * 2 + (w ? 1 : 0);
    if (a > b) std::swap(a, b);
    k = mix2(a, b) | 1;
  }
  for (uint32_t i = 0; i < g_nrace; i++) if (g_race[i].key == k && g_race[i].is_static == (uint8_t)st) { g_race[i].count++; return; }
  if (g_nrace >= NRACE) { g_race_dropped++; return; }
  RaceEv &e = g_race[g_nrace++];
  e.key = k; e.addr = addr; e.pc1 = r.pc; e.pc2 = pc; e.count = 1; e.mask = ov; e.w1 = r.w; e.w2 = w; e.t1 = r.task; e.t2 = (uint8_t)t->id; e.is_static = st;
}

void log_cell(Task *t, uint64_t key, uint8_t mask, bool w, uint64_t pc) {
  Slot *s = find_slot(key, true);
  if (!s) { g_overflow++; return; }
  const uint32_t clk = t->vc[t->id];
  const uint8_t me = (uint8_t)t->id, ww = w ? 1 : 0;
  bool done = false;
  uint32_t *link = &s->head;
  for (uint32_t i = *link; i;) {
    Rec &r = g_recs[i];
    uint32_t nx = r.next;
    if (r.task != me) {
      if ((r.mask & mask) && (r.w | ww) && r.clk > t->vc[r.task]) report_race(t, key, r.mask & mask, r, w, pc);
      link = &r.next;
    } else if (r.w == ww) {
      if (r.mask == mask && !done) { r.clk = clk; r.pc = pc; done = true; link = &r.next; }
      else {
        r.mask &= (uint8_t)~mask;
        if (!r.mask) { *link = nx; r.next = g_freerec; g_freerec = i; }
        else link = &r.next;
      }
    } else link = &r.next;
    i = nx;
  }
  if (!done) {
    uint32_t i = alloc_rec();
    if (!i) { g_overflow++; return; }
    Rec &r = g_recs[i];
    r.pc = pc; r.clk = clk; r.next = s->head; r.task = me; r.mask = mask; r.w = ww;
    s->head = i;
  }
}

inline void log_range(Task *t, uintptr_t a, size_t size, bool w, uint64_t pc) {
  while (size) {
    unsigned off = a & 7, n = 8 - off;
    if (n > size) n = (unsigned)size;
    log_cell(t, a >> 3, (uint8_t)(((1u << n) - 1) << off), w, pc);
    a += n; size -= n;
  }
}

// forget everything known about [a, a+size): the block is being handed out / returned by the allocator
void reset_range(uintptr_t a, size_t size) {
  if (!g_used_slots) return;
  while (size) {
    unsigned off = a & 7, n = 8 - off;
    if (n > size) n = (unsigned)size;
    Slot *s = find_slot(a >> 3, false);
    if (s && s->head) {
      uint8_t mask = (uint8_t)(((1u << n) - 1) << off);
      uint32_t *link = &s->head;
      for (uint32_t i = *link; i;) {
        Rec &r = g_recs[i];
        uint32_t nx = r.next;
        r.mask &= (uint8_t)~mask;
        if (!r.mask) { *link = nx; r.next = g_freerec; g_freerec = i; }
        else link = &r.next;
        i = nx;
      }
    }
    a += n; size -= n;
  }
}

// ------------------------------------------------------------------ static write log
inline void finalize_pending(Task *t) {
  SW &e = g_sw[t->pend];
  for (unsigned i = 0; i < e.size; i++) e.neu[i] = ((volatile uint8_t *)e.addr)[i];
  e.have_new = 1;
  t->pend = -1;
}
inline int sw_append(Task *t, uintptr_t a, unsigned size, uint64_t pc) {
  if (g_nsw >= NSW) { g_sw_dropped++; return -1; }
  SW &e = g_sw[g_nsw];
  e.addr = a; e.pc = pc; e.size = (uint8_t)size; e.task = (uint8_t)t->id; e.have_new = 0;
  for (unsigned i = 0; i < size; i++) e.old[i] = ((volatile uint8_t *)a)[i];
  return (int)g_nsw++;
}
// range writes by wrapped libc functions: value before / after around the real call
struct SwRange { int first = -1; unsigned n = 0; };
SwRange sw_range_pre(Task *t, uintptr_t a, size_t size, uint64_t pc) {
  SwRange r;
  if (!is_static_addr(a) || size > 4096) { if (is_static_addr(a)) g_sw_dropped++; return r; }
  while (size) {
    unsigned n = size > 16 ? 16 : (unsigned)size;
    int i = sw_append(t, a, n, pc);
    if (i < 0) break;
    if (r.first < 0) r.first = i;
    r.n++;
    a += n; size -= n;
  }
  return r;
}
void sw_range_post(const SwRange &r) {
  for (unsigned k = 0; k < r.n; k++) {
    SW &e = g_sw[r.first + k];
    for (unsigned i = 0; i < e.size; i++) e.neu[i] = ((volatile uint8_t *)e.addr)[i];
    e.have_new = 1;
  }
}

// ------------------------------------------------------------------ baton
inline void wait_baton(Task *t) { while (sem_wait(&t->sem) && errno == EINTR) {} }

Task *pick_highest() {
  Task *b = nullptr;
  for (int i = 1; i < g_nt; i++) if (g_tasks[i].state == ST_RUNNABLE && (!b || g_tasks[i].prio > b->prio)) b = &g_tasks[i];
  return b;
}
Task *pick_other(Task *t, uint64_t h) {
  Task *c[MAXT]; int n = 0;
  for (int i = 1; i < g_nt; i++) if (g_tasks[i].state == ST_RUNNABLE && &g_tasks[i] != t) c[n++] = &g_tasks[i];
  return n ? c[h % n] : nullptr;
}

inline void note_switch(Task *from, uint64_t pc) { g_sig = mix2(g_sig, ((uint64_t)from->id << 56) ^ (func_hash(pc) >> 8)); }

void switch_to(Task *t, Task *n, uint64_t pc) {
  note_switch(t, pc);
  sem_post(&n->sem);
  wait_baton(t);
}

void describe_deadlock() {
  std::string s;
  for (int i = 1; i < g_nt; i++) {
    Task &k = g_tasks[i];
    if (k.state == ST_BLOCKED) {
      s += "task " + std::to_string(i) + " blocked on mutex " + obj_name((uintptr_t)k.blocked_on->m) + " held by task " + std::to_string(k.blocked_on->owner) + "; ";
    } else if (k.state == ST_FINISHED) s += "task " + std::to_string(i) + " finished; ";
  }
  *g_deadlock_info = s;
}

// the current task cannot continue (blocked or finished): hand the baton to somebody else
void pass_baton(Task *t, uint64_t pc, bool wait) {
  Task *n = g_cfg.strategy == S_PCT ? pick_highest() : pick_other(t, mix2(g_cfg.seed ^ 0x5bd1e995, g_step));
  if (n) {
    g_forced++;
    note_switch(t, pc);
    sem_post(&n->sem);
  } else {
    bool all_done = true;
    for (int i = 1; i < g_nt; i++) if (g_tasks[i].state != ST_FINISHED) all_done = false;
    if (!all_done) { g_deadlock = true; describe_deadlock(); }
    sem_post(&g_main_sem);
  }
  if (wait) wait_baton(t);
}

inline void sched_point(Task *t, int kind, uint64_t pc) {
  uint64_t s = g_step++;
  Task *n;
  if (g_cfg.strategy == S_PCT) {
    if (g_next_change >= g_cfg.change.size() || s < g_cfg.change[g_next_change]) return;
    g_next_change++;
    t->prio = -(int)g_next_change;
    n = pick_highest();
  } else {
    if (g_cfg.strategy == S_WRAPPED && kind != K_WRAPPED) return;
    uint64_t h = mix2(g_cfg.seed, s);
    if (h % g_cfg.period) return;
    if (g_switches >= g_cfg.max_switches) return;
    n = pick_other(t, h >> 24);
  }
  if (n && n != t) { g_switches++; switch_to(t, n, pc); }
}

void *task_main(void *p) {
  Task *t = (Task *)p;
  tl_in_rt = 1;
  tl_task = t;
  pthread_attr_t a;
  if (!pthread_getattr_np(pthread_self(), &a)) {
    void *sa = nullptr; size_t ss = 0;
    pthread_attr_getstack(&a, &sa, &ss);
    pthread_attr_destroy(&a);
    t->stk_lo = (uintptr_t)sa; t->stk_hi = t->stk_lo + ss;
  }
  wait_baton(t);
  tl_in_rt = 0;
  t->fn(t->arg);
  tl_in_rt = 1;  // for good: thread exit runs concurrently with the next baton holder
  if (t->pend >= 0) finalize_pending(t);
  t->state = ST_FINISHED;
  t->vc[t->id]++;
  pass_baton(t, (uint64_t)(uintptr_t)t->fn, false);
  return nullptr;
}

MutexRec *mutex_rec(void *m) {
  for (int i = 0; i < g_nmutex; i++) if (g_mutexes[i].m == m) return &g_mutexes[i];
  if (g_nmutex >= 64) return nullptr;
  MutexRec *r = &g_mutexes[g_nmutex++];
  r->m = m; r->owner = -1;
  for (int i = 0; i < MAXT; i++) r->vc[i] = 0;
  return r;
}

// common prologue of every callback made by a task inside the phase; returns the task or null
#define PC ((uint64_t)(uintptr_t)__builtin_return_address(0))
inline __attribute__((always_inline)) Task *enter() {
  Task *t = tl_task;
  if (!t || tl_in_rt) return nullptr;
  tl_in_rt = 1;
  if (t->pend >= 0) finalize_pending(t);
  return t;
}
inline __attribute__((always_inline)) void leave() { tl_in_rt = 0; }
inline bool own_stack(Task *t, uintptr_t a) { return a - t->stk_lo < t->stk_hi - t->stk_lo; }

inline __attribute__((always_inline)) void on_access(uintptr_t a, unsigned size, bool w, uint64_t pc) {
  Task *t = enter();
  if (!t) return;
  sched_point(t, K_ACCESS, pc);
  if (!own_stack(t, a)) {
    g_accesses++;
    log_range(t, a, size, w, pc);
    if (w && is_static_addr(a) && size <= 16) t->pend = sw_append(t, a, size, pc);
  }
  leave();
}
inline __attribute__((always_inline)) void on_range(uintptr_t a, size_t size, bool w, uint64_t pc) {
  Task *t = enter();
  if (!t) return;
  sched_point(t, K_ACCESS, pc);
  if (size && !own_stack(t, a)) { g_accesses++; log_range(t, a, size, w, pc); }
  leave();
}
inline __attribute__((always_inline)) void wrapped_point(uint64_t pc) {
  if (!g_active) return;
  Task *t = enter();
  if (!t) return;
  g_wrapped++;
  sched_point(t, K_WRAPPED, pc);
  leave();
}

inline void alloc_event(void *p) {
  Task *t = tl_task;
  if (!p || !t || tl_in_rt) return;
  tl_in_rt = 1;
  reset_range((uintptr_t)p, malloc_usable_size(p));
  tl_in_rt = 0;
}

}  // namespace

// ====================================================================================== public API
namespace hwsim {
namespace sched {

void init() {
  if (g_inited) return;
  g_inited = true;
  tl_in_rt++;
  dl_iterate_phdr(phdr_cb, nullptr);
  load_symbols();
  g_slots = (Slot *)mmap(nullptr, NSLOTS * sizeof(Slot), PROT_READ | PROT_WRITE, MAP_PRIVATE | MAP_ANONYMOUS | MAP_NORESERVE, -1, 0);
  g_recs = (Rec *)mmap(nullptr, (size_t)NRECS * sizeof(Rec), PROT_READ | PROT_WRITE, MAP_PRIVATE | MAP_ANONYMOUS | MAP_NORESERVE, -1, 0);
  g_sw = (SW *)mmap(nullptr, (size_t)NSW * sizeof(SW), PROT_READ | PROT_WRITE, MAP_PRIVATE | MAP_ANONYMOUS | MAP_NORESERVE, -1, 0);
  g_race = (RaceEv *)mmap(nullptr, (size_t)NRACE * sizeof(RaceEv), PROT_READ | PROT_WRITE, MAP_PRIVATE | MAP_ANONYMOUS | MAP_NORESERVE, -1, 0);
  if (g_slots == MAP_FAILED || g_recs == MAP_FAILED || g_sw == MAP_FAILED || g_race == MAP_FAILED) { perror("hwsim sched: mmap"); _exit(2); }
  g_deadlock_info = new std::string();
  sem_init(&g_main_sem, 0, 0);
  tl_in_rt--;
}

unsigned restore_statics() {
  unsigned n = 0;
  for (auto &s : *g_objs) {
    if (!s.hw || s.image.empty()) continue;
    n++;
    if (memcmp((void *)s.addr, s.image.data(), s.image.size())) __real_memcpy((void *)s.addr, s.image.data(), s.image.size());   // (RELRO objects never differ)
  }
  return n;
}

unsigned nstatics() { unsigned n = 0; for (auto &s : *g_objs) if (s.hw) n++; return n; }
std::string data_symbol(const void *a) { return obj_name((uintptr_t)a); }
std::string func_symbol(const void *pc) { return func_name((uintptr_t)pc); }

uint64_t hash_bytes(const void *p, size_t n) {
  if (g_active) on_range((uintptr_t)p, n, false, PC);
  Fnv f; f.bytes(p, n);
  return f.h;
}

static std::string hexbytes(const uint8_t *p, unsigned n) {
  std::string s; char b[4];
  for (unsigned i = n; i-- > 0;) { snprintf(b, sizeof b, "%02x", p[i]); s += b; }  // little endian: print as a number
  return s;
}

static void build_races(Result &res) {
  std::map<std::string, size_t> idx;
  // heap: one entry per sorted pair of function names
  for (uint32_t i = 0; i < g_nrace; i++) {
    const RaceEv &e = g_race[i];
    if (e.is_static) continue;
    std::string f1 = func_name(e.pc1), f2 = func_name(e.pc2);
    bool w1 = e.w1, w2 = e.w2; int t1 = e.t1, t2 = e.t2;
    if (f2 < f1) { std::swap(f1, f2); std::swap(w1, w2); std::swap(t1, t2); }
    std::string cls = "race.heap:" + f1 + ":" + f2;
    auto it = idx.find(cls);
    if (it == idx.end()) {
      Race r; r.is_static = false; r.cls = cls; r.fn[0] = f1; r.fn[1] = f2; r.wr[0] = w1; r.wr[1] = w2; r.task[0] = t1; r.task[1] = t2; r.cells = e.count;
      idx[cls] = res.races.size(); res.races.push_back(r);
    } else res.races[it->second].cells += e.count;
  }
  // static: one entry per symbol; the idempotent-once-init rule is evaluated on the racing bytes only
  struct Grp { std::vector<uint32_t> evs; };
  std::map<std::string, Grp> grp; std::vector<std::string> order;
  for (uint32_t i = 0; i < g_nrace; i++) {
    const RaceEv &e = g_race[i];
    if (!e.is_static) continue;
    unsigned lowbit = 0; while (lowbit < 8 && !(e.mask & (1u << lowbit))) lowbit++;
    std::string sym = obj_name(e.addr + lowbit);
    if (!grp.count(sym)) order.push_back(sym);
    grp[sym].evs.push_back(i);
  }
  for (auto &sym : order) {
    Grp &g = grp[sym];
    Race r; r.is_static = true; r.sym = sym; r.cls = "race.static:" + sym;
    const RaceEv &e0 = g_race[g.evs[0]];
    r.fn[0] = func_name(e0.pc1); r.fn[1] = func_name(e0.pc2); r.wr[0] = e0.w1; r.wr[1] = e0.w2; r.task[0] = e0.t1; r.task[1] = e0.t2;
    std::vector<uint64_t> bytes;
    for (uint32_t i : g.evs) { const RaceEv &e = g_race[i]; r.cells += e.count; for (unsigned b = 0; b < 8; b++) if (e.mask & (1u << b)) bytes.push_back(e.addr + b); }
    std::sort(bytes.begin(), bytes.end()); bytes.erase(std::unique(bytes.begin(), bytes.end()), bytes.end());
    bool idem = true; std::string why;
    for (uint64_t b : bytes) {
      bool first = true; uint8_t I = 0, V = 0; unsigned nw = 0;
      for (uint32_t k = 0; k < g_nsw; k++) {
        const SW &w = g_sw[k];
        if (b < w.addr || b >= w.addr + w.size) continue;
        nw++;
        if (!w.have_new) { idem = false; why = "value of a write not observed"; break; }
        uint8_t o = w.old[b - w.addr], nv = w.neu[b - w.addr];
        if (first) { I = o; V = nv; first = false; }
        else if (nv != V || (o != I && o != V)) { idem = false; why = "conflicting writes store differing values"; break; }
      }
      if (!nw) { idem = false; why = g_sw_dropped ? "static write log overflow" : "racing write not seen by the value log"; }
      if (!idem) break;
    }
    r.idempotent = idem;
    // values written to the cell, for the report
    std::string vals; unsigned shown = 0, total = 0;
    for (uint32_t k = 0; k < g_nsw; k++) {
      const SW &w = g_sw[k];
      if (bytes.empty() || bytes.front() >= w.addr + w.size || bytes.back() < w.addr) continue;
      total++;
      if (shown < 6) { vals += " t" + std::to_string(w.task) + ":" + func_name(w.pc) + ":0x" + hexbytes(w.old, w.size) + "->0x" + hexbytes(w.neu, w.size); shown++; }
    }
    r.detail = std::to_string(total) + " write(s) in the phase:" + vals + (total > shown ? " ..." : "") + (idem ? "" : " [" + why + "]");
    res.races.push_back(r);
  }
}

Result run_phase(const Config &cfg, const std::vector<std::pair<TaskFn, void *>> &tasks) {
  Result res;
  if (!g_inited) init();
  if (tasks.empty() || tasks.size() + 1 > (size_t)MAXT) return res;
  tl_in_rt++;
  // fresh shadow
  g_gen++; g_nrec = 1; g_freerec = 0; g_used_slots = 0; g_overflow = 0;
  g_nsw = 0; g_sw_dropped = 0; g_nrace = 0; g_race_total = 0; g_race_dropped = 0; g_nmutex = 0;
  g_step = g_switches = g_forced = g_accesses = g_wrapped = g_mblocks = g_macq = 0;
  g_sig = 0x243f6a8885a308d3ULL;
  g_deadlock = false; g_deadlock_info->clear();
  g_cfg = cfg;
  if (!g_cfg.period) g_cfg.period = 1;
  std::sort(g_cfg.change.begin(), g_cfg.change.end());
  g_next_change = 0;
  g_nt = (int)tasks.size() + 1;
  Task &m = g_tasks[0];
  m.id = 0; m.state = ST_BLOCKED;
  for (int i = 0; i < MAXT; i++) m.vc[i] = 0;
  m.vc[0] = 1;
  int d = (int)g_cfg.change.size();
  for (int i = 1; i < g_nt; i++) {
    Task &t = g_tasks[i];
    t.id = i; t.state = ST_RUNNABLE; t.blocked_on = nullptr; t.pend = -1;
    t.fn = tasks[i - 1].first; t.arg = tasks[i - 1].second;
    t.prio = d + 1 + ((size_t)(i - 1) < g_cfg.prio.size() ? g_cfg.prio[i - 1] * MAXT : 0) + (MAXT - i);  // distinct, all above the change priorities
    t.stk_lo = t.stk_hi = 0;
    // HB edge: task creation
    for (int k = 0; k < MAXT; k++) t.vc[k] = m.vc[k];
    t.vc[i] = 1;
    m.vc[0]++;
    sem_init(&t.sem, 0, 0);
    if (pthread_create(&t.th, nullptr, task_main, &t)) { perror("hwsim sched: pthread_create"); _exit(2); }
  }
  Task *first = g_cfg.strategy == S_PCT ? pick_highest() : pick_other(nullptr, mix2(g_cfg.seed, ~0ULL) >> 24);
  g_active = true;
  sem_post(&first->sem);
  while (sem_wait(&g_main_sem) && errno == EINTR) {}
  g_active = false;
  if (!g_deadlock) {
    for (int i = 1; i < g_nt; i++) {
      pthread_join(g_tasks[i].th, nullptr);
      sem_destroy(&g_tasks[i].sem);
      for (int k = 0; k < MAXT; k++) if (g_tasks[i].vc[k] > m.vc[k]) m.vc[k] = g_tasks[i].vc[k];  // HB edge: join
    }
  }
  res.steps = g_step; res.switches = g_switches; res.forced_switches = g_forced; res.accesses = g_accesses; res.wrapped_calls = g_wrapped;
  res.mutex_blocks = g_mblocks; res.mutex_acquires = g_macq; res.signature = g_sig;
  res.deadlock = g_deadlock; res.deadlock_info = *g_deadlock_info;
  res.race_reports = g_race_total; res.shadow_overflow = g_overflow + g_race_dropped; res.static_writes = g_nsw;
  build_races(res);
  tl_in_rt--;
  return res;
}

}  // namespace sched
}  // namespace hwsim

// ====================================================================================== instrumentation callbacks
extern "C" {

void __tsan_init() {}
void __tsan_func_entry(void *) {
  if (!g_active) return;
  uint64_t pc = PC;
  Task *t = enter();
  if (!t) return;
  sched_point(t, K_FUNC, pc);
  leave();
}
void __tsan_func_exit() {}

#define RW(n)                                                                                                   \
  void __tsan_read##n(void *a) { if (!g_active) return; on_access((uintptr_t)a, n, false, PC); }                 \
  void __tsan_write##n(void *a) { if (!g_active) return; on_access((uintptr_t)a, n, true, PC); }                 \
  void __tsan_unaligned_read##n(void *a) { if (!g_active) return; on_access((uintptr_t)a, n, false, PC); }       \
  void __tsan_unaligned_write##n(void *a) { if (!g_active) return; on_access((uintptr_t)a, n, true, PC); }
RW(1) RW(2) RW(4) RW(8) RW(16)
#undef RW
void __tsan_read_range(void *a, unsigned long n) { if (!g_active) return; on_range((uintptr_t)a, n, false, PC); }
void __tsan_write_range(void *a, unsigned long n) { if (!g_active) return; on_range((uintptr_t)a, n, true, PC); }
void __tsan_vptr_update(void **vp, void *) { if (!g_active) return; on_access((uintptr_t)vp, 8, true, PC); }
void __tsan_vptr_read(void **vp) { if (!g_active) return; on_access((uintptr_t)vp, 8, false, PC); }

// atomics of the instrumented harness code (C++ static-local guards): performed, not logged
#define ATOMICS(bits, T)                                                                                                         \
  T __tsan_atomic##bits##_load(const volatile T *a, int) { return __atomic_load_n(a, __ATOMIC_SEQ_CST); }                         \
  void __tsan_atomic##bits##_store(volatile T *a, T v, int) { __atomic_store_n(a, v, __ATOMIC_SEQ_CST); }                         \
  T __tsan_atomic##bits##_exchange(volatile T *a, T v, int) { return __atomic_exchange_n(a, v, __ATOMIC_SEQ_CST); }               \
  T __tsan_atomic##bits##_fetch_add(volatile T *a, T v, int) { return __atomic_fetch_add(a, v, __ATOMIC_SEQ_CST); }               \
  T __tsan_atomic##bits##_fetch_sub(volatile T *a, T v, int) { return __atomic_fetch_sub(a, v, __ATOMIC_SEQ_CST); }               \
  T __tsan_atomic##bits##_fetch_and(volatile T *a, T v, int) { return __atomic_fetch_and(a, v, __ATOMIC_SEQ_CST); }               \
  T __tsan_atomic##bits##_fetch_or(volatile T *a, T v, int) { return __atomic_fetch_or(a, v, __ATOMIC_SEQ_CST); }                 \
  T __tsan_atomic##bits##_fetch_xor(volatile T *a, T v, int) { return __atomic_fetch_xor(a, v, __ATOMIC_SEQ_CST); }               \
  int __tsan_atomic##bits##_compare_exchange_strong(volatile T *a, T *c, T v, int, int) { return __atomic_compare_exchange_n(a, c, v, 0, __ATOMIC_SEQ_CST, __ATOMIC_SEQ_CST); } \
  int __tsan_atomic##bits##_compare_exchange_weak(volatile T *a, T *c, T v, int, int) { return __atomic_compare_exchange_n(a, c, v, 1, __ATOMIC_SEQ_CST, __ATOMIC_SEQ_CST); }   \
  T __tsan_atomic##bits##_compare_exchange_val(volatile T *a, T c, T v, int, int) { __atomic_compare_exchange_n(a, &c, v, 0, __ATOMIC_SEQ_CST, __ATOMIC_SEQ_CST); return c; }
ATOMICS(8, unsigned char) ATOMICS(16, unsigned short) ATOMICS(32, unsigned int) ATOMICS(64, unsigned long)
#undef ATOMICS
void __tsan_atomic_thread_fence(int) { __atomic_thread_fence(__ATOMIC_SEQ_CST); }
void __tsan_atomic_signal_fence(int) { __atomic_signal_fence(__ATOMIC_SEQ_CST); }

// ====================================================================================== allocator
// Interposed for the whole process (also libc's and libxml2's internal allocations) so that the
// shadow of a block is forgotten whenever the allocator hands it out or takes it back, whoever asks.
void *malloc(size_t n) { void *p = __libc_malloc(n); if (g_active) alloc_event(p); return p; }
void free(void *p) { if (g_active) alloc_event(p); __libc_free(p); }
void *calloc(size_t a, size_t b) { void *p = __libc_calloc(a, b); if (g_active) alloc_event(p); return p; }
void *realloc(void *p, size_t n) {
  if (g_active) alloc_event(p);
  void *q = __libc_realloc(p, n);
  if (g_active) alloc_event(q);
  return q;
}
void *memalign(size_t al, size_t n) { void *p = __libc_memalign(al, n); if (g_active) alloc_event(p); return p; }
void *aligned_alloc(size_t al, size_t n) { return memalign(al, n); }
int posix_memalign(void **out, size_t al, size_t n) {
  if (al % sizeof(void *) || (al & (al - 1)) || !al) return EINVAL;
  void *p = memalign(al, n);
  if (!p) return ENOMEM;
  *out = p;
  return 0;
}

// calls made by hwloc / the instrumented driver: additionally pre-emption points
void *__wrap_malloc(size_t n) { wrapped_point(PC); return malloc(n); }
void __wrap_free(void *p) { wrapped_point(PC); free(p); }
void *__wrap_calloc(size_t a, size_t b) { wrapped_point(PC); return calloc(a, b); }
void *__wrap_realloc(void *p, size_t n) { wrapped_point(PC); return realloc(p, n); }

char *__wrap_strdup(const char *s) {
  uint64_t pc = PC;
  size_t len = strlen(s) + 1;
  Task *t = g_active ? enter() : nullptr;
  if (t) {
    g_wrapped++;
    sched_point(t, K_WRAPPED, pc);
    if (!own_stack(t, (uintptr_t)s)) { g_accesses++; log_range(t, (uintptr_t)s, len, false, pc); }
    leave();
  }
  char *p = (char *)malloc(len);
  if (!p) return nullptr;
  __real_memcpy(p, s, len);
  if (t) { tl_in_rt = 1; g_accesses++; log_range(t, (uintptr_t)p, len, true, pc); leave(); }
  return p;
}

static inline void *copy_common(void *d, const void *s, size_t n, uint64_t pc, bool move) {
  Task *t = g_active ? enter() : nullptr;
  if (!t) return move ? __real_memmove(d, s, n) : __real_memcpy(d, s, n);
  g_wrapped++;
  sched_point(t, K_WRAPPED, pc);
  SwRange sr;
  if (n) {
    if (!own_stack(t, (uintptr_t)s)) { g_accesses++; log_range(t, (uintptr_t)s, n, false, pc); }
    if (!own_stack(t, (uintptr_t)d)) { g_accesses++; log_range(t, (uintptr_t)d, n, true, pc); sr = sw_range_pre(t, (uintptr_t)d, n, pc); }
  }
  void *r = move ? __real_memmove(d, s, n) : __real_memcpy(d, s, n);
  sw_range_post(sr);
  leave();
  return r;
}
void *__wrap_memcpy(void *d, const void *s, size_t n) { return copy_common(d, s, n, PC, false); }
void *__wrap_memmove(void *d, const void *s, size_t n) { return copy_common(d, s, n, PC, true); }
void *__wrap_memset(void *d, int c, size_t n) {
  uint64_t pc = PC;
  Task *t = g_active ? enter() : nullptr;
  if (!t) return __real_memset(d, c, n);
  g_wrapped++;
  sched_point(t, K_WRAPPED, pc);
  SwRange sr;
  if (n && !own_stack(t, (uintptr_t)d)) { g_accesses++; log_range(t, (uintptr_t)d, n, true, pc); sr = sw_range_pre(t, (uintptr_t)d, n, pc); }
  void *r = __real_memset(d, c, n);
  sw_range_post(sr);
  leave();
  return r;
}
void __wrap_qsort(void *base, size_t n, size_t sz, int (*cmp)(const void *, const void *)) {
  uint64_t pc = PC;
  Task *t = g_active ? enter() : nullptr;
  if (t) {
    g_wrapped++;
    sched_point(t, K_WRAPPED, pc);
    if (n && sz && !own_stack(t, (uintptr_t)base)) { g_accesses += 2; log_range(t, (uintptr_t)base, n * sz, false, pc); log_range(t, (uintptr_t)base, n * sz, true, pc); }
    leave();
  }
  __real_qsort(base, n, sz, cmp);  // the comparison callbacks are instrumented code: scheduled and logged as usual
}
char *__wrap_getenv(const char *name) { wrapped_point(PC); return __real_getenv(name); }

int __wrap_pthread_mutex_lock(pthread_mutex_t *m) {
  uint64_t pc = PC;
  Task *t = g_active ? enter() : nullptr;
  if (!t) return __real_pthread_mutex_lock(m);
  g_wrapped++;
  sched_point(t, K_WRAPPED, pc);
  MutexRec *mr = mutex_rec(m);
  if (mr) {
    while (mr->owner >= 0) {  // held by a parked task (or by ourselves: a real deadlock)
      t->state = ST_BLOCKED; t->blocked_on = mr; g_mblocks++;
      pass_baton(t, pc, true);
    }
    mr->owner = t->id; g_macq++;
    for (int k = 0; k < MAXT; k++) if (mr->vc[k] > t->vc[k]) t->vc[k] = mr->vc[k];  // HB edge: unlock -> lock
  }
  leave();
  return __real_pthread_mutex_lock(m);
}
int __wrap_pthread_mutex_unlock(pthread_mutex_t *m) {
  uint64_t pc = PC;
  Task *t = g_active ? enter() : nullptr;
  if (!t) return __real_pthread_mutex_unlock(m);
  int rc = __real_pthread_mutex_unlock(m);
  MutexRec *mr = mutex_rec(m);
  if (mr && mr->owner == t->id) {
    for (int k = 0; k < MAXT; k++) mr->vc[k] = t->vc[k];
    t->vc[t->id]++;
    mr->owner = -1;
    for (int i = 1; i < g_nt; i++) if (g_tasks[i].state == ST_BLOCKED && g_tasks[i].blocked_on == mr) { g_tasks[i].state = ST_RUNNABLE; g_tasks[i].blocked_on = nullptr; }
  }
  g_wrapped++;
  if (g_cfg.strategy == S_PCT) {  // a task of higher priority may have become runnable
    g_step++;
    Task *n = pick_highest();
    if (n && n != t && n->prio > t->prio) { g_switches++; switch_to(t, n, pc); }
  } else sched_point(t, K_WRAPPED, pc);
  leave();
  return rc;
}

}  // extern "C"
