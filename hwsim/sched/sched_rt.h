// hwsim scheduler runtime (C17): link-time half of -fsanitize=thread (our own __tsan_* callbacks),
// baton scheduler over real pthreads, happens-before race detector with a byte-exact shadow.
// See DESIGN.md 3.7 and 4/C17.
#pragma once
#include <stdint.h>
#include <string>
#include <vector>
#include <utility>

namespace hwsim {
namespace sched {

enum Strategy { S_PCT = 0, S_RAND = 1, S_WRAPPED = 2 };

// Everything that decides the schedule. It comes from the plan's `sched` line; together with the
// deterministic step index (count of instrumentation callbacks in the concurrent phase) it fixes
// who runs when.
struct Config {
  int strategy = S_RAND;
  uint64_t seed = 0;                // rand / wrapped: per-step hash seed; also tie-breaks
  uint64_t period = 200;            // rand: switch with probability 1/period per step; wrapped: per wrapped call
  uint64_t max_switches = 4000;     // after that many voluntary switches only forced ones (block / finish) happen
  std::vector<uint64_t> change;     // pct: priority change points (step indices)
  std::vector<int> prio;            // pct: initial priority per task (higher runs first)
};

struct Race {
  bool is_static = false;
  bool idempotent = false;          // static only: every conflicting write stores the same value, cell moves initial -> value once
  std::string cls;                  // race.heap:<fn>:<fn>  |  race.static:<symbol>
  std::string sym;                  // static: symbol (+offset)
  std::string fn[2];                // enclosing functions of the two accesses
  bool wr[2] = {false, false};
  int task[2] = {0, 0};
  uint64_t cells = 0;               // number of racing (cell, site pair) reports folded into this entry
  std::string detail;               // human readable; values written for static cells
};

struct Result {
  uint64_t steps = 0, switches = 0, forced_switches = 0, accesses = 0, wrapped_calls = 0, mutex_blocks = 0, mutex_acquires = 0;
  uint64_t signature = 0;           // interleaving signature: hash of the sequence (task, function at switch)
  bool deadlock = false;
  std::string deadlock_info;
  std::vector<Race> races;          // one entry per class, in order of first detection
  uint64_t race_reports = 0;        // raw number of racing access pairs seen
  uint64_t shadow_overflow = 0;     // accesses not recorded because the shadow was full (0 in practice)
  uint64_t static_writes = 0;
};

typedef void (*TaskFn)(void *);

// Once per process, before hwloc is used: symbol table of the executable, segment bounds, image of
// hwloc's static storage.
void init();
// Put every writable static object of the hwloc sources back to its load-time value, so that each
// run starts like a fresh process (once-initialised environment caches, component registry).
// Returns the number of objects restored.
unsigned restore_statics();
// Concurrent phase: tasks[i] runs as task i+1 on its own pthread (the caller is task 0 and is parked
// until every task has finished or a deadlock was found).
Result run_phase(const Config &cfg, const std::vector<std::pair<TaskFn, void *>> &tasks);
// Symbol (+offset) of an address in static storage / function containing a pc; never a raw address.
std::string data_symbol(const void *addr);
std::string func_symbol(const void *pc);
// hwloc static objects known to the runtime (for evidence)
unsigned nstatics();
// FNV-1a of a buffer, computed in uninstrumented code (one pre-emption point and one range read in the
// access log instead of one callback per byte): for digests of bulk results such as XML buffers.
uint64_t hash_bytes(const void *p, size_t n);

}  // namespace sched
}  // namespace hwsim
