#include "hwsim.h"
#include <setjmp.h>
#include <unistd.h>
#include <signal.h>
#include <sys/stat.h>
#include <fstream>
#include <sstream>
#include <iostream>

extern "C" int __lsan_do_recoverable_leak_check(void) __attribute__((weak));
extern "C" void __lsan_disable(void) __attribute__((weak));
extern "C" void __lsan_enable(void) __attribute__((weak));
extern "C" void __sanitizer_set_death_callback(void (*)(void)) __attribute__((weak));

namespace hwsim {

// ---------------------------------------------------------------- encoding
std::string enc(const std::string &s) {
  std::string o;
  if (s.empty()) return "%";
  for (unsigned char c : s) {
    if (c <= 32 || c >= 127 || c == '%' || c == '=') { char b[8]; snprintf(b, sizeof b, "%%%02x", c); o += b; }
    else o += (char)c;
  }
  return o;
}
std::string dec(const std::string &s) {
  if (s == "%") return "";
  std::string o;
  for (size_t i = 0; i < s.size(); i++) {
    if (s[i] == '%' && i + 2 < s.size()) { o += (char)strtol(s.substr(i + 1, 2).c_str(), 0, 16); i += 2; }
    else o += s[i];
  }
  return o;
}

std::string Op::text() const {
  std::string o = "op " + kind;
  for (auto &p : kv) o += " " + p.first + "=" + p.second;
  return o;
}

std::string Plan::hk(const std::string &line, const std::string &k, const std::string &def) const {
  std::string v = h(line);
  std::istringstream is(v); std::string tok;
  while (is >> tok) { size_t e = tok.find('='); if (e != std::string::npos && tok.substr(0, e) == k) return tok.substr(e + 1); }
  return def;
}

std::string Plan::text() const {
  std::ostringstream o;
  o << "hwsim-plan 1\nmachine " << machine << "\nprop " << prop << "\ntier " << tier << "\nseed " << seed << "\n";
  for (auto &p : hdr) o << p.first << " " << p.second << "\n";
  for (auto &op : ops) o << op.text() << "\n";
  return o.str();
}

bool Plan::parse(const std::string &text, Plan &out, std::string &err) {
  std::istringstream is(text); std::string line; bool first = true;
  out = Plan();
  while (std::getline(is, line)) {
    if (line.empty() || line[0] == '#') continue;
    if (first) { if (line.rfind("hwsim-plan", 0) != 0) { err = "not a plan file"; return false; } first = false; continue; }
    size_t sp = line.find(' ');
    std::string k = line.substr(0, sp), rest = sp == std::string::npos ? "" : line.substr(sp + 1);
    if (k == "machine") out.machine = rest;
    else if (k == "prop") out.prop = rest;
    else if (k == "tier") out.tier = rest;
    else if (k == "seed") out.seed = strtoull(rest.c_str(), 0, 0);
    else if (k == "op") {
      std::istringstream ls(rest); std::string tok; Op op; bool gotkind = false;
      while (ls >> tok) {
        if (!gotkind) { op.kind = tok; gotkind = true; continue; }
        size_t e = tok.find('=');
        if (e == std::string::npos) { err = "bad op token " + tok; return false; }
        op.kv.push_back({tok.substr(0, e), tok.substr(e + 1)});
      }
      if (!gotkind) { err = "empty op"; return false; }
      out.ops.push_back(op);
    } else out.hdr.push_back({k, rest});
  }
  if (first) { err = "empty plan"; return false; }
  return true;
}

// ---------------------------------------------------------------- run
void Run::ev(const char *fmt, ...) {
  char buf[4096]; va_list ap; va_start(ap, fmt); vsnprintf(buf, sizeof buf, fmt, ap); va_end(ap);
  evs(buf);
}
void Run::evs(const std::string &s) {
  log.u64(nevents++); log.str(s);
  if (verbose) { fprintf(stdout, "EV %llu %s\n", (unsigned long long)nevents - 1, s.size() > 2000 ? (s.substr(0, 2000) + "...").c_str() : s.c_str()); }
}
void Run::fail(const std::string &oracle, const char *fmt, ...) {
  char buf[4096]; va_list ap; va_start(ap, fmt); vsnprintf(buf, sizeof buf, fmt, ap); va_end(ap);
  if (!violated) { violated = true; vclass = oracle + "@" + (curop.empty() ? "-" : curop); vdetail = buf; }
  throw RunAbort();
}
void Run::fail0(const std::string &oracle, const char *fmt, ...) {
  char buf[4096]; va_list ap; va_start(ap, fmt); vsnprintf(buf, sizeof buf, fmt, ap); va_end(ap);
  if (!violated) { violated = true; vclass = oracle; vdetail = buf; }
  throw RunAbort();
}
void Run::cut_short(const std::string &byprop, const char *fmt, ...) {
  char buf[4096]; va_list ap; va_start(ap, fmt); vsnprintf(buf, sizeof buf, fmt, ap); va_end(ap);
  if (!cut) { cut = true; cutby = byprop; vdetail = buf; }
  throw RunAbort();
}

volatile uint64_t g_steps = 0;
uint64_t g_step_budget = 0;
unsigned g_watchdog_s = 150;
Run *g_run = nullptr;
const char *g_scratch = nullptr;
AssertInfo g_last_assert;
static jmp_buf g_assert_jmp;
static uint64_t g_cur_seed = 0;

void steps_reset() { g_steps = 0; }

static std::string g_scratch_s;
static void rm_scratch() { if (!g_scratch_s.empty()) { std::string c = "rm -rf '" + g_scratch_s + "'"; if (system(c.c_str())) {} } }
const char *scratch_dir() {
  if (g_scratch) return g_scratch;
  const char *base = getenv("HWSIM_SCRATCH");
  std::string b = base ? base : "/dev/shm";
  if (access(b.c_str(), W_OK)) b = getenv("TMPDIR") ? getenv("TMPDIR") : "/tmp";
  char buf[512]; snprintf(buf, sizeof buf, "%s/hwsim.%d.XXXXXX", b.c_str(), (int)getpid());
  if (!mkdtemp(buf)) { perror("mkdtemp"); _exit(2); }
  g_scratch_s = buf; g_scratch = g_scratch_s.c_str();
  atexit(rm_scratch);
  return g_scratch;
}

bool guarded_call(void (*fn)(void *), void *arg) {
  g_assert_jmp_armed = 1;
  if (setjmp(g_assert_jmp)) { g_assert_jmp_armed = 0; return false; }
  fn(arg);
  g_assert_jmp_armed = 0;
  return true;
}

static void emit_viol(uint64_t seed, const std::string &cls, const std::string &detail) {
  std::string d = detail; for (char &c : d) if (c == '\n') c = ' ';
  printf("VIOL %llu %s | %s\n", (unsigned long long)seed, cls.c_str(), d.c_str());
  fflush(stdout);
}

// sanitise an assertion expression into a class token
static std::string tok(const std::string &s) { std::string o; for (char c : s) o += (c == ' ' || c == '\t' || c == '\n' || c == '|') ? '_' : c; return o; }

static void on_fatal_signal(int sig) {
  // step-budget / watchdog alarm
  if (sig == SIGALRM) {
    const char m[] = "HWSIM-WATCHDOG: wall-clock alarm\n";
    if (write(2, m, sizeof m - 1)) {}
    _exit(80);
  }
}

}  // namespace hwsim

using namespace hwsim;

extern "C" {
int g_assert_jmp_armed = 0;

// linked with -Wl,--wrap=__assert_fail : hwloc's assert() lands here
void __wrap___assert_fail(const char *expr, const char *file, unsigned line, const char *func) {
  g_last_assert.expr = expr ? expr : ""; g_last_assert.file = file ? file : ""; g_last_assert.func = func ? func : ""; g_last_assert.line = line;
  fprintf(stderr, "HWSIM-ASSERT: %s:%u: %s: Assertion `%s' failed.\n", file, line, func, expr);
  if (g_assert_jmp_armed) { g_assert_jmp_armed = 0; longjmp(g_assert_jmp, 1); }
  // not recoverable: report with the op being executed and die; the runner restarts the worker
  std::string base = g_last_assert.file; size_t sl = base.rfind('/'); if (sl != std::string::npos) base = base.substr(sl + 1);
  std::string fn = g_last_assert.func; size_t par = fn.find('('); if (par != std::string::npos) fn = fn.substr(0, par); size_t sp = fn.find_last_of(" *"); if (sp != std::string::npos) fn = fn.substr(sp + 1);
  std::string cls = "assert:" + base + ":" + tok(fn) + ":" + tok(g_last_assert.expr) + "@" + (g_run && !g_run->curop.empty() ? g_run->curop : "-");
  char d[512]; snprintf(d, sizeof d, "%s:%u %s: Assertion `%s' failed (op #%d)", file, line, func, expr, g_run ? g_run->curopidx : -1);
  emit_viol(g_cur_seed, cls, d);
  _exit(79);
}

// step counter (system under test compiled with -fsanitize-coverage=trace-pc-guard)
__attribute__((no_sanitize("address", "undefined"))) void __sanitizer_cov_trace_pc_guard(uint32_t *guard) {
  (void)guard;
  if (++g_steps > g_step_budget && g_step_budget) {
    g_step_budget = 0;
    std::string cls = std::string("hang@") + (g_run && !g_run->curop.empty() ? g_run->curop : "-");
    char d[256]; snprintf(d, sizeof d, "step budget exceeded in op #%d (%s)", g_run ? g_run->curopidx : -1, g_run ? g_run->curop.c_str() : "");
    emit_viol(g_cur_seed, cls, d);
    _exit(78);
  }
}
__attribute__((no_sanitize("address", "undefined"))) void __sanitizer_cov_trace_pc_guard_init(uint32_t *start, uint32_t *stop) {
  static uint32_t n = 0;
  for (uint32_t *x = start; x < stop; x++) if (!*x) *x = ++n;
}

__attribute__((used)) const char *__asan_default_options() {
  return "exitcode=77:detect_leaks=1:leak_check_at_exit=0:allocator_may_return_null=1:abort_on_error=0:"
         "handle_abort=1:quarantine_size_mb=32:malloc_context_size=12:detect_stack_use_after_return=0:max_allocation_size_mb=2048:symbolize=1";
}
__attribute__((used)) const char *__ubsan_default_options() { return "print_stacktrace=1:halt_on_error=1:exitcode=77"; }
__attribute__((used)) const char *__lsan_default_options() { return "exitcode=0:print_suppressions=0"; }
}

namespace hwsim {

static std::string read_file(const char *path) { std::ifstream f(path, std::ios::binary); std::ostringstream s; s << f.rdbuf(); return s.str(); }

struct WorkerSets {
  std::map<std::string, std::unordered_set<uint64_t>> seen;
  std::map<std::string, FILE *> files;
  std::string dir;
  int wid = 0;
  void add(const std::string &name, uint64_t h) {
    auto &s = seen[name];
    if (!s.insert(h).second) return;
    if (dir.empty()) return;
    FILE *&f = files[name];
    if (!f) { std::string p = dir + "/set." + name + "." + std::to_string(wid) + "." + std::to_string((int)getpid()) + ".bin"; f = fopen(p.c_str(), "ab"); if (!f) return; }
    fwrite(&h, 8, 1, f);
  }
  void flush() { for (auto &p : files) if (p.second) fflush(p.second); }
};

static int do_run(Machine &m, const Plan &p, bool verbose, WorkerSets &ws, bool leakcheck) {
  Run r; r.seed = p.seed; r.verbose = verbose; g_run = &r; g_cur_seed = p.seed;
  printf("BEGIN %llu\n", (unsigned long long)p.seed); fflush(stdout);
  alarm(g_watchdog_s);
  try { m.run(p, r); } catch (RunAbort &) {}
  alarm(0);
  if (leakcheck && !r.violated && !r.cut && __lsan_do_recoverable_leak_check) {
    if (__lsan_do_recoverable_leak_check()) { r.violated = true; r.vclass = "leak@run"; r.vdetail = "LeakSanitizer reported a leak at the end of the run (all replicas destroyed)"; }
  }
  if (r.violated) emit_viol(p.seed, r.vclass, r.vdetail);
  if (r.cut) { printf("CUT %llu %s | %s\n", (unsigned long long)p.seed, r.cutby.c_str(), r.vdetail.c_str()); }
  for (auto &s : r.sets) ws.add(s.first, s.second);
  ws.flush();
  std::string st;
  for (auto &kv : r.st) { st += " "; st += kv.first; st += "="; st += std::to_string(kv.second); }
  printf("END %llu %016llx ops=%llu ev=%llu v=%d cut=%s |%s\n", (unsigned long long)p.seed, (unsigned long long)r.log.h, (unsigned long long)r.nops,
         (unsigned long long)r.nevents, r.violated ? 1 : 0, r.cut ? r.cutby.c_str() : "-", st.c_str());
  fflush(stdout);
  g_run = nullptr;
  return (r.violated || r.cut) ? 1 : 0;
}

static void death_cb() {
  char b[160]; int n = snprintf(b, sizeof b, "HWSIM-OP: %s %d\n", g_run && !g_run->curop.empty() ? g_run->curop.c_str() : "-", g_run ? g_run->curopidx : -1);
  if (write(2, b, n)) {}
}

int worker_main(int argc, char **argv, Machine &m) {
  signal(SIGALRM, on_fatal_signal);
  if (__sanitizer_set_death_callback) __sanitizer_set_death_callback(death_cb);
  setvbuf(stdout, nullptr, _IOLBF, 0);
  if (argc < 2) { fprintf(stderr, "usage: %s gen <seed> <prop> <tier> <class> | worker <class> | replay <plan> [-v]\n", argv[0]); return 2; }
  std::string mode = argv[1];
  WorkerSets ws;
  if (getenv("HWSIM_SETS_DIR")) ws.dir = getenv("HWSIM_SETS_DIR");
  if (getenv("HWSIM_WORKER_ID")) ws.wid = atoi(getenv("HWSIM_WORKER_ID"));
  bool leakcheck = !getenv("HWSIM_NO_LEAKCHECK");
  if (mode == "nclasses") { printf("%d\n", m.nclasses(argc > 2 ? argv[2] : "")); return 0; }
  if (mode == "gen") {
    if (argc < 6) return 2;
    Plan p = m.gen(strtoull(argv[2], 0, 0), argv[3], argv[4], atoi(argv[5]));
    fputs(p.text().c_str(), stdout);
    return 0;
  }
  if (mode == "replay") {
    if (argc < 3) return 2;
    Plan p; std::string err;
    if (!Plan::parse(read_file(argv[2]), p, err)) { fprintf(stderr, "plan: %s\n", err.c_str()); return 2; }
    bool verbose = argc > 3 && !strcmp(argv[3], "-v");
    m.proc_setup((int)p.hki("proc", "class", 0), &p);
    do_run(m, p, verbose, ws, leakcheck);
    return 0;
  }
  if (mode == "worker") {
    int pclass = argc > 2 ? atoi(argv[2]) : 0;
    m.proc_setup(pclass, nullptr);
    char line[512];
    // LeakSanitizer's stop-the-world check costs ~0.2 s on a grown heap: it runs every `leak_every` runs; when it fires, the
    // runner re-runs the suspect seeds one by one with HWSIM_LEAK_EVERY=1 to attribute the leak to a seed
    unsigned leak_every = getenv("HWSIM_LEAK_EVERY") ? (unsigned)atoi(getenv("HWSIM_LEAK_EVERY")) : 32;
    std::vector<unsigned long long> since;
    bool recycle = false;
    auto batch_check = [&]() {
      if (!leakcheck || leak_every <= 1 || since.empty() || !__lsan_do_recoverable_leak_check) { since.clear(); return; }
      if (__lsan_do_recoverable_leak_check()) { printf("LEAK"); for (auto sd : since) printf(" %llu", sd); printf("\n"); fflush(stdout); recycle = true; }
      since.clear();
    };
    while (fgets(line, sizeof line, stdin)) {
      if (!strncmp(line, "QUIT", 4)) break;
      unsigned long long seed; char prop[32], tier[32];
      if (sscanf(line, "RUN %llu %31s %31s", &seed, prop, tier) != 3) continue;
      Plan p = m.gen(seed, prop, tier, pclass);
      int bad = do_run(m, p, getenv("HWSIM_EVLOG") != nullptr, ws, leakcheck && leak_every <= 1);
      if (bad) { printf("RECYCLE\n"); fflush(stdout); return 0; }  // state after a violated/cut run is not trusted
      since.push_back(seed);
      if (since.size() >= leak_every) batch_check();
      if (recycle) { printf("RECYCLE\n"); fflush(stdout); return 0; }
      printf("READY\n"); fflush(stdout);
    }
    batch_check();
    fflush(stdout);
    return 0;
  }
  return 2;
}

}  // namespace hwsim
