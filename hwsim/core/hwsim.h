// hwsim core: seeded PRNG, plan text format, run context (event log hash, stats, violation
// reporting), worker protocol.  No hwloc dependency here.
#pragma once
#include <stdint.h>
#include <stdio.h>
#include <stdlib.h>
#include <string.h>
#include <stdarg.h>
#include <string>
#include <vector>
#include <map>
#include <set>
#include <unordered_set>
#include <utility>

namespace hwsim {

// ---------------------------------------------------------------- PRNG (splitmix64 / xorshift)
static inline uint64_t mix64(uint64_t z) {
  z += 0x9e3779b97f4a7c15ULL;
  z = (z ^ (z >> 30)) * 0xbf58476d1ce4e5b9ULL;
  z = (z ^ (z >> 27)) * 0x94d049bb133111ebULL;
  return z ^ (z >> 31);
}
static inline uint64_t mix2(uint64_t a, uint64_t b) { return mix64(mix64(a) ^ (b * 0xd6e8feb86659fd93ULL + 0x2545F4914F6CDD1DULL)); }

struct Rng {
  uint64_t s;
  explicit Rng(uint64_t seed = 1) : s(mix64(seed) | 1) {}
  // independent sub-stream
  Rng sub(uint64_t tag) const { return Rng(mix2(s, tag)); }
  uint64_t next() { s ^= s << 13; s ^= s >> 7; s ^= s << 17; return mix64(s); }
  uint64_t below(uint64_t n) { return n ? next() % n : 0; }
  int64_t range(int64_t lo, int64_t hi) { return lo + (int64_t)below((uint64_t)(hi - lo + 1)); }
  bool chance(unsigned num, unsigned den) { return below(den) < num; }
  template <class T> const T &pick(const std::vector<T> &v) { return v[below(v.size())]; }
};

// ---------------------------------------------------------------- FNV-1a
struct Fnv {
  uint64_t h = 0xcbf29ce484222325ULL;
  void bytes(const void *p, size_t n) { const unsigned char *c = (const unsigned char *)p; for (size_t i = 0; i < n; i++) { h ^= c[i]; h *= 0x100000001b3ULL; } }
  void str(const std::string &s) { bytes(s.data(), s.size()); unsigned char z = 0xff; bytes(&z, 1); }
  void u64(uint64_t v) { bytes(&v, 8); }
};
static inline uint64_t hash_str(const std::string &s) { Fnv f; f.str(s); return f.h; }

// ---------------------------------------------------------------- plan
std::string enc(const std::string &s);  // percent-encode so that a value has no blanks
std::string dec(const std::string &s);

struct Op {
  std::string kind;
  std::vector<std::pair<std::string, std::string>> kv;
  Op() {}
  explicit Op(const std::string &k) : kind(k) {}
  Op &set(const std::string &k, int64_t v) { kv.push_back({k, std::to_string(v)}); return *this; }
  Op &setu(const std::string &k, uint64_t v) { char b[32]; snprintf(b, sizeof b, "0x%llx", (unsigned long long)v); kv.push_back({k, b}); return *this; }
  Op &sets(const std::string &k, const std::string &v) { kv.push_back({k, enc(v)}); return *this; }
  bool has(const std::string &k) const { for (auto &p : kv) if (p.first == k) return true; return false; }
  int64_t i(const std::string &k, int64_t def = 0) const { for (auto &p : kv) if (p.first == k) return (int64_t)strtoll(p.second.c_str(), 0, 0); return def; }
  uint64_t u(const std::string &k, uint64_t def = 0) const { for (auto &p : kv) if (p.first == k) return (uint64_t)strtoull(p.second.c_str(), 0, 0); return def; }
  std::string s(const std::string &k, const std::string &def = "") const { for (auto &p : kv) if (p.first == k) return dec(p.second); return def; }
  std::string text() const;
};

struct Plan {
  std::string machine, prop, tier;
  uint64_t seed = 0;
  std::vector<std::pair<std::string, std::string>> hdr;  // proc / src / cfg ... lines, value = rest of line
  std::vector<Op> ops;
  std::string h(const std::string &k, const std::string &def = "") const { for (auto &p : hdr) if (p.first == k) return p.second; return def; }
  void seth(const std::string &k, const std::string &v) { for (auto &p : hdr) if (p.first == k) { p.second = v; return; } hdr.push_back({k, v}); }
  // "k=v k=v" lookups inside a header line
  std::string hk(const std::string &line, const std::string &k, const std::string &def = "") const;
  int64_t hki(const std::string &line, const std::string &k, int64_t def = 0) const { std::string v = hk(line, k); return v.empty() ? def : strtoll(v.c_str(), 0, 0); }
  std::string text() const;
  static bool parse(const std::string &text, Plan &out, std::string &err);
};

// ---------------------------------------------------------------- run context
struct RunAbort {};  // thrown to unwind to the worker loop after the first violation / cut

struct Run {
  uint64_t seed = 0;
  Fnv log;                      // event log identity
  uint64_t nevents = 0, nops = 0;
  bool violated = false, cut = false;
  std::string vclass, vdetail, cutby;
  std::map<std::string, uint64_t> st;       // per-run stats (delta)
  std::vector<std::pair<std::string, uint64_t>> sets;  // (set name, hash) discovered in this run
  std::string curop;            // kind of the op being executed (for attribution)
  int curopidx = -1;
  bool verbose = false;

  void ev(const char *fmt, ...) __attribute__((format(printf, 2, 3)));
  void evs(const std::string &s);
  void count(const std::string &k, uint64_t n = 1) { st[k] += n; }
  void distinct(const std::string &setname, uint64_t h) { sets.push_back({setname, h}); }
  // violation of the run's primary property: recorded, run stops
  [[noreturn]] void fail(const std::string &oracle, const char *fmt, ...) __attribute__((format(printf, 3, 4)));
  // same, but the class is the oracle id alone (the op being executed is not part of the identity)
  [[noreturn]] void fail0(const std::string &oracle, const char *fmt, ...) __attribute__((format(printf, 3, 4)));
  // an oracle of another property failed: run cut short without verdict
  [[noreturn]] void cut_short(const std::string &byprop, const char *fmt, ...) __attribute__((format(printf, 3, 4)));
};

// ---------------------------------------------------------------- machine interface
struct Machine {
  virtual ~Machine() {}
  virtual const char *name() = 0;
  virtual int nclasses(const std::string &prop) { (void)prop; return 1; }
  // process configuration (environment cached by hwloc in statics): called once, before any run
  virtual void proc_setup(int pclass, const Plan *replay) { (void)pclass; (void)replay; }
  virtual Plan gen(uint64_t seed, const std::string &prop, const std::string &tier, int pclass) = 0;
  virtual void run(const Plan &p, Run &r) = 0;
};

int worker_main(int argc, char **argv, Machine &m);

// step counter fed by -fsanitize-coverage=trace-pc-guard in the system under test
extern volatile uint64_t g_steps;
extern uint64_t g_step_budget;      // per op; 0 = unlimited
extern unsigned g_watchdog_s;       // wall-clock safety net per run (uninstrumented libc/libxml2 loops)
void steps_reset();
extern Run *g_run;                  // current run (for handlers)
extern const char *g_scratch;       // per-process scratch directory (created lazily)
const char *scratch_dir();

// assertion capture: while `g_assert_jmp_armed`, a failing assert() inside the SUT longjmps back
extern "C" {
extern int g_assert_jmp_armed;
}
struct AssertInfo { std::string expr, file, func; unsigned line = 0; };
extern AssertInfo g_last_assert;
// returns true if fn() ran to completion, false if an assert fired (info in g_last_assert)
bool guarded_call(void (*fn)(void *), void *arg);

}  // namespace hwsim
