// Bitmap machine (C03, C04): operation histories on a pool of hwloc bitmaps, refined against a
// trivially-correct set model (characteristic function on [0,U) + a constant beyond U).
#include "../core/hwsim.h"
#include <hwloc.h>
#include <errno.h>
#include <algorithm>

extern "C" int hwloc_bitmap_compare_inclusion(hwloc_const_bitmap_t, hwloc_const_bitmap_t); /* exported; declared in private/misc.h */
enum { BM_EQUAL = 0, BM_INCLUDED = 1, BM_CONTAINS = 2, BM_INTERSECTS = 3, BM_DIFFERENT = 4 };

using namespace hwsim;

namespace {

const int U = 2304;      // universe of explicit indexes (36 words); every generated index is < U-64
const int POOL = 6;

struct M {
  std::vector<char> b; bool tail = false;   // tail: every index >= U is in the set
  M() : b(U, 0) {}
  bool has(long i) const { return i < U ? b[i] : tail; }
  bool empty() const { if (tail) return false; for (char c : b) if (c) return false; return true; }
  bool full() const { if (!tail) return false; for (char c : b) if (!c) return false; return true; }
  long first() const { for (int i = 0; i < U; i++) if (b[i]) return i; return tail ? U : -1; }
  long last() const { if (tail) return -1; for (int i = U - 1; i >= 0; i--) if (b[i]) return i; return -1; }
  long next(long prev) const { for (long i = prev + 1; i < U; i++) if (i >= 0 && b[i]) return i; if (tail) return std::max<long>(prev + 1, U); return -1; }
  long first_unset() const { for (int i = 0; i < U; i++) if (!b[i]) return i; return tail ? -1 : U; }
  long last_unset() const { if (!tail) return -1; for (int i = U - 1; i >= 0; i--) if (!b[i]) return i; return -1; }
  long next_unset(long prev) const { for (long i = prev + 1; i < U; i++) if (i >= 0 && !b[i]) return i; if (!tail) return std::max<long>(prev + 1, U); return -1; }
  long weight() const { if (tail) return -1; long w = 0; for (char c : b) w += c; return w; }
  long nr_ulongs() const { if (tail) return -1; long l = last(); return l < 0 ? 0 : l / 64 + 1; }
  bool operator==(const M &o) const { return tail == o.tail && b == o.b; }
  unsigned long word(unsigned w) const { unsigned long v = 0; for (int q = 0; q < 64; q++) if (has((long)w * 64 + q)) v |= 1UL << q; return v; }
  uint64_t hash() const { Fnv f; f.bytes(b.data(), b.size()); f.u64(tail); return f.h; }
};

static M binop(const M &a, const M &c, int op) {
  M r; auto bit = [&](bool x, bool y) { return op == 0 ? (x || y) : op == 1 ? (x && y) : op == 2 ? (x && !y) : (x != y); };
  for (int i = 0; i < U; i++) r.b[i] = bit(a.b[i], c.b[i]);
  r.tail = bit(a.tail, c.tail); return r;
}
static bool m_included(const M &a, const M &c) { for (int i = 0; i < U; i++) if (a.b[i] && !c.b[i]) return false; return !(a.tail && !c.tail); }
static bool m_intersects(const M &a, const M &c) { for (int i = 0; i < U; i++) if (a.b[i] && c.b[i]) return true; return a.tail && c.tail; }
static int sgn(int x) { return x < 0 ? -1 : x > 0 ? 1 : 0; }

const unsigned BND[] = {0, 1, 2, 30, 31, 32, 33, 62, 63, 64, 65, 66, 127, 128, 129, 191, 192, 193, 255, 256, 511, 512, 513, 575, 576, 577, 1023, 1024, 1025, 2047, 2048};
static unsigned gen_idx(Rng &g) { return g.chance(2, 3) ? BND[g.below(sizeof BND / sizeof *BND)] : (unsigned)g.below(1100); }
static unsigned long gen_mask(Rng &g) {
  switch (g.below(8)) { case 0: return 0; case 1: return ~0UL; case 2: return 1UL << g.below(64); case 3: return ~(1UL << g.below(64)); case 4: return g.next() & g.next() & g.next(); case 5: return 1UL << 63 | 1; default: return g.next(); }
}

struct BitmapMachine : Machine {
  const char *name() override { return "bitmap"; }

  Plan gen(uint64_t seed, const std::string &prop, const std::string &tier, int pclass) override {
    Plan p; p.machine = "bitmap"; p.prop = prop; p.tier = tier; p.seed = seed;
    p.seth("proc", "class=" + std::to_string(pclass));
    Rng root(seed); Rng cfg = root.sub(1), ops = root.sub(2);
    int len = (int)cfg.range(20, tier == "thorough" ? 200 : 120);
    // swarm: disable a random third of the op groups
    std::vector<std::string> groups = {"bit", "range", "const", "ulong", "binop", "not", "copy", "realloc", "singlify", "rerep", "q1", "q2", "toul", "print", "roundtrip", "parse"};
    std::vector<std::pair<std::string, int>> w;
    for (auto &gname : groups) {
      bool c04 = gname == "print" || gname == "roundtrip" || gname == "parse";
      int weight = cfg.chance(1, 3) ? 0 : (int)cfg.range(1, 6);
      if (prop == "C04" && c04) weight = (int)cfg.range(4, 10);
      if (prop == "C04" && gname == "parse") weight = (int)cfg.range(1, 4);
      if (prop == "C03" && c04) weight = (gname == "roundtrip" && cfg.chance(1, 2)) ? 1 : 0;   // in C03 runs parse(print(x)) only serves as one more construction path
      w.push_back({gname, weight});
    }
    int total = 0; for (auto &x : w) total += x.second;
    if (!total) { w[0].second = 1; w[4].second = 1; w[10].second = 1; total = 3; }
    std::string sw; for (auto &x : w) if (x.second) sw += x.first + ":" + std::to_string(x.second) + " ";
    p.seth("cfg", "weights " + sw);
    for (int s = 0; s < len; s++) {
      int r = (int)ops.below(total); std::string gname; for (auto &x : w) { if (r < x.second) { gname = x.first; break; } r -= x.second; }
      int x = (int)ops.below(POOL), y = (int)ops.below(POOL), z = (int)ops.below(POOL);
      if (ops.chance(1, 4)) y = x; if (ops.chance(1, 6)) z = x; if (ops.chance(1, 8)) z = y;   // aliasing on purpose
      unsigned i = gen_idx(ops), j = gen_idx(ops);
      Op o;
      if (gname == "bit") { o = Op(ops.chance(1, 2) ? "set" : "clr"); o.set("x", x).set("i", i); }
      else if (gname == "range") {
        int k = (int)ops.below(4); if (k < 2 && i > j && !ops.chance(1, 8)) std::swap(i, j);
        o = Op(k == 0 ? "set_range" : k == 1 ? "clr_range" : k == 2 ? "set_range_inf" : "clr_range_inf"); o.set("x", x).set("i", i); if (k < 2) o.set("j", j);
      } else if (gname == "const") { int k = (int)ops.below(4); o = Op(k == 0 ? "zero" : k == 1 ? "fill" : k == 2 ? "only" : "allbut"); o.set("x", x); if (k >= 2) o.set("i", i); }
      else if (gname == "ulong") {
        int k = (int)ops.below(4); unsigned wd = ops.chance(1, 2) ? (unsigned)ops.below(4) : (unsigned)ops.below(34);
        if (k == 0) { o = Op("from_ulong"); o.set("x", x).setu("m", gen_mask(ops)); }
        else if (k == 1) { o = Op("from_ith"); o.set("x", x).set("w", wd).setu("m", gen_mask(ops)); }
        else if (k == 2) { o = Op("set_ith"); o.set("x", x).set("w", wd).setu("m", gen_mask(ops)); }
        else { o = Op("from_ulongs"); o.set("x", x).set("nr", (int64_t)ops.below(20)).setu("ms", ops.next()); }
      } else if (gname == "binop") { static const char *n[] = {"or", "and", "andnot", "xor"}; o = Op(n[ops.below(4)]); o.set("x", x).set("y", y).set("z", z); }
      else if (gname == "not") { o = Op("not"); o.set("x", x).set("y", y); }
      else if (gname == "copy") { o = Op(ops.chance(1, 2) ? "copy" : "dup"); o.set("x", x).set("y", y); }
      else if (gname == "realloc") { o = Op(ops.chance(1, 2) ? "realloc" : "realloc_full"); o.set("x", x); }
      else if (gname == "singlify") { o = Op("singlify"); o.set("x", x); }
      else if (gname == "rerep") { o = Op("rerep"); o.set("x", x).set("y", y).set("how", (int64_t)ops.below(5)).set("i", 64 * (int64_t)ops.range(1, 30) + (int64_t)ops.below(64)); }
      else if (gname == "q1") { o = Op("q1"); o.set("x", x).set("p", (int64_t)i - 1); }
      else if (gname == "q2") { o = Op("q2"); o.set("x", x).set("y", y); }
      else if (gname == "toul") { o = Op("to_ulongs"); o.set("x", x).set("nr", (int64_t)ops.below(24)).set("w", (int64_t)ops.below(36)); }
      else if (gname == "print") { o = Op("print"); o.set("x", x).set("fmt", (int64_t)ops.below(3)).set("len", ops.chance(1, 3) ? (int64_t)ops.below(4) : ops.chance(1, 2) ? -(int64_t)ops.below(4) - 1 : (int64_t)ops.below(400)); }
      else if (gname == "roundtrip") { o = Op("roundtrip"); o.set("x", x).set("y", y).set("fmt", (int64_t)ops.below(3)); }
      else { o = Op("parse"); o.set("y", y).set("fmt", (int64_t)ops.below(3)).sets("s", gen_string(ops)); }
      p.ops.push_back(o);
    }
    return p;
  }

  // strings for the pure-input clause of C04: grammar-shaped, mutated, arbitrary
  static std::string gen_string(Rng &g) {
    std::string s; int k = (int)g.below(7);
    auto hex = [&](int n) { std::string h; for (int q = 0; q < n; q++) h += "0123456789abcdefABCDEF"[g.below(22)]; return h; };
    if (k == 0) { int n = (int)g.below(5) + 1; if (g.chance(1, 3)) s += "0xf...f,"; for (int q = 0; q < n; q++) { if (q) s += ","; s += "0x" + hex((int)g.below(9)); } }
    else if (k == 1) { int n = (int)g.below(5) + 1; for (int q = 0; q < n; q++) { if (q) s += ","; unsigned a = gen_idx(g); s += std::to_string(a); if (g.chance(1, 2)) { s += "-"; if (!g.chance(1, 4)) s += std::to_string(a + (unsigned)g.below(70)); } } }
    else if (k == 2) { s = g.chance(1, 3) ? "0xf...f" : "0x"; s += hex((int)g.below(40)); }
    else if (k == 3) { int n = (int)g.below(12); for (int q = 0; q < n; q++) s += (char)(1 + g.below(255)); }
    else { // mutate a well-formed one
      static const char *base[] = {"0x00000001,0xffffffff", "0xf...f,0x0000ffff", "0-3,7,9-", "0xf...f00ff", "1-", "0x0", "", "0xffffffff,0x00000000,0x00000000", "3-1", "0x,", "-", "0-,5", "0xg", ",", "0xf...f", "0xf...", "4294967295", "4294967296-4294967297", "0x100000000"};
      s = base[g.below(sizeof base / sizeof *base)];
      int nm = (int)g.below(3); for (int q = 0; q < nm && !s.empty(); q++) { size_t pos = g.below(s.size()); int how = (int)g.below(3); if (how == 0) s.erase(pos, 1); else if (how == 1) s.insert(pos, 1, ",-xf0.9 "[g.below(8)]); else s[pos] = (char)(32 + g.below(95)); }
    }
    for (char &c : s) if (!c) c = '0';
    return s;
  }

  // ------------------------------------------------------------------ execution
  hwloc_bitmap_t b[POOL]; M m[POOL]; bool isC04 = false;

  void check(Run &r, int x, const char *what) {
    hwloc_bitmap_t bb = b[x]; const M &mm = m[x];
    for (long i = 0; i < U; i++) if (!!hwloc_bitmap_isset(bb, (unsigned)i) != mm.has(i)) r.fail("bitmap.readback", "after %s on #%d: bit %ld is %d, model %d", what, x, i, hwloc_bitmap_isset(bb, (unsigned)i), (int)mm.has(i));
    if (!!hwloc_bitmap_isset(bb, 1000003) != mm.tail || !!hwloc_bitmap_isset(bb, 0x7fffffffu) != mm.tail) r.fail("bitmap.readback", "after %s on #%d: infinite tail differs (model %d)", what, x, (int)mm.tail);
    unary(r, x, what, -1);
  }
  void unary(Run &r, int x, const char *what, long p) {
    hwloc_bitmap_t bb = b[x]; const M &mm = m[x];
#define Q(name, got, exp) do { long g_ = (got), e_ = (exp); if (g_ != e_) r.fail0(std::string("bitmap.") + name, "%s on #%d after %s: got %ld, set semantics give %ld", name, x, what, g_, e_); } while (0)
    Q("iszero", hwloc_bitmap_iszero(bb), mm.empty()); Q("isfull", hwloc_bitmap_isfull(bb), mm.full());
    Q("first", hwloc_bitmap_first(bb), mm.first()); Q("last", hwloc_bitmap_last(bb), mm.last());
    Q("weight", hwloc_bitmap_weight(bb), mm.weight());
    Q("first_unset", hwloc_bitmap_first_unset(bb), mm.first_unset()); Q("last_unset", hwloc_bitmap_last_unset(bb), mm.last_unset());
    Q("nr_ulongs", hwloc_bitmap_nr_ulongs(bb), mm.nr_ulongs());
    Q("next", hwloc_bitmap_next(bb, (int)p), mm.next(p)); Q("next_unset", hwloc_bitmap_next_unset(bb, (int)p), mm.next_unset(p));
    Q("to_ulong", (long)hwloc_bitmap_to_ulong(bb), (long)mm.word(0));
#undef Q
  }

  void run(const Plan &p, Run &r) override {
    for (int i = 0; i < POOL; i++) { b[i] = hwloc_bitmap_alloc(); m[i] = M(); }
    struct Cleanup { BitmapMachine *s; ~Cleanup() { for (int i = 0; i < POOL; i++) { if (s->b[i]) hwloc_bitmap_free(s->b[i]); s->b[i] = nullptr; } } } cl{this};
    isC04 = p.prop == "C04";
    g_step_budget = 200000000ULL;   // per op; the largest legitimate op (rerep over 2304 bits) needs < 10^5 guarded edges
    int idx = 0;
    for (const Op &o : p.ops) {
      r.curop = o.kind; r.curopidx = idx++; r.nops++; steps_reset();
      const std::string &k = o.kind;
      int x = (int)(o.u("x") % POOL), y = (int)(o.u("y") % POOL), z = (int)(o.u("z") % POOL);
      unsigned i = (unsigned)(o.u("i") % (U - 128)), j = (unsigned)(o.u("j") % (U - 128));
      bool mutated = true; int rc = 0; char what[128]; snprintf(what, sizeof what, "%s", o.text().c_str());
      if (k == "set") { rc = hwloc_bitmap_set(b[x], i); m[x].b[i] = 1; }
      else if (k == "clr") { rc = hwloc_bitmap_clr(b[x], i); m[x].b[i] = 0; }
      else if (k == "set_range") { rc = hwloc_bitmap_set_range(b[x], i, (int)j); for (unsigned q = i; q <= j; q++) m[x].b[q] = 1; }
      else if (k == "clr_range") { rc = hwloc_bitmap_clr_range(b[x], i, (int)j); for (unsigned q = i; q <= j; q++) m[x].b[q] = 0; }
      else if (k == "set_range_inf") { rc = hwloc_bitmap_set_range(b[x], i, -1); for (int q = i; q < U; q++) m[x].b[q] = 1; m[x].tail = true; }
      else if (k == "clr_range_inf") { rc = hwloc_bitmap_clr_range(b[x], i, -1); for (int q = i; q < U; q++) m[x].b[q] = 0; m[x].tail = false; }
      else if (k == "zero") { hwloc_bitmap_zero(b[x]); m[x] = M(); }
      else if (k == "fill") { hwloc_bitmap_fill(b[x]); m[x] = M(); std::fill(m[x].b.begin(), m[x].b.end(), 1); m[x].tail = true; }
      else if (k == "only") { rc = hwloc_bitmap_only(b[x], i); m[x] = M(); m[x].b[i] = 1; }
      else if (k == "allbut") { rc = hwloc_bitmap_allbut(b[x], i); m[x] = M(); std::fill(m[x].b.begin(), m[x].b.end(), 1); m[x].tail = true; m[x].b[i] = 0; }
      else if (k == "from_ulong") { unsigned long mk = o.u("m"); rc = hwloc_bitmap_from_ulong(b[x], mk); m[x] = M(); for (int q = 0; q < 64; q++) m[x].b[q] = (mk >> q) & 1; }
      else if (k == "from_ith") { unsigned w = (unsigned)(o.u("w") % 34); unsigned long mk = o.u("m"); rc = hwloc_bitmap_from_ith_ulong(b[x], w, mk); m[x] = M(); for (int q = 0; q < 64; q++) m[x].b[w * 64 + q] = (mk >> q) & 1; }
      else if (k == "set_ith") { unsigned w = (unsigned)(o.u("w") % 34); unsigned long mk = o.u("m"); rc = hwloc_bitmap_set_ith_ulong(b[x], w, mk); for (int q = 0; q < 64; q++) m[x].b[w * 64 + q] = (mk >> q) & 1; }
      else if (k == "from_ulongs") { unsigned nr = 1 + (unsigned)(o.u("nr") % 33); Rng g(o.u("ms"));   /* nr=0 is outside the explored domain: see DESIGN.md */ std::vector<unsigned long> ms(nr + 1); for (unsigned q = 0; q < nr; q++) ms[q] = gen_mask(g); rc = hwloc_bitmap_from_ulongs(b[x], nr, ms.data()); m[x] = M(); for (unsigned q = 0; q < nr * 64; q++) m[x].b[q] = (ms[q / 64] >> (q % 64)) & 1; }
      else if (k == "or" || k == "and" || k == "andnot" || k == "xor") {
        int op = k == "or" ? 0 : k == "and" ? 1 : k == "andnot" ? 2 : 3; M res = binop(m[y], m[z], op);
        rc = op == 0 ? hwloc_bitmap_or(b[x], b[y], b[z]) : op == 1 ? hwloc_bitmap_and(b[x], b[y], b[z]) : op == 2 ? hwloc_bitmap_andnot(b[x], b[y], b[z]) : hwloc_bitmap_xor(b[x], b[y], b[z]);
        m[x] = res; if (x == y || x == z) r.count("probe.alias_dst");
      }
      else if (k == "not") { M res; for (int q = 0; q < U; q++) res.b[q] = !m[y].b[q]; res.tail = !m[y].tail; rc = hwloc_bitmap_not(b[x], b[y]); m[x] = res; if (x == y) r.count("probe.alias_dst"); }
      else if (k == "copy") { rc = hwloc_bitmap_copy(b[x], b[y]); m[x] = m[y]; }
      else if (k == "dup") { if (x != y) { hwloc_bitmap_free(b[x]); b[x] = hwloc_bitmap_dup(b[y]); m[x] = m[y]; } }
      else if (k == "realloc") { hwloc_bitmap_free(b[x]); b[x] = hwloc_bitmap_alloc(); m[x] = M(); }
      else if (k == "realloc_full") { hwloc_bitmap_free(b[x]); b[x] = hwloc_bitmap_alloc_full(); m[x] = M(); std::fill(m[x].b.begin(), m[x].b.end(), 1); m[x].tail = true; }
      else if (k == "singlify") { long f = m[x].first(); rc = hwloc_bitmap_singlify(b[x]); m[x] = M(); if (f >= 0) m[x].b[f] = 1; }
      else if (k == "rerep") {
        // give #x the same abstract value as #y through a different construction path
        int how = (int)(o.u("how") % 5); unsigned hi = 64 + (unsigned)(o.u("i") % (U - 192));
        if (x != y) {
          if (how == 0) { hwloc_bitmap_zero(b[x]); hwloc_bitmap_set(b[x], hi); hwloc_bitmap_clr(b[x], hi); if (m[y].tail) hwloc_bitmap_set_range(b[x], U, -1); for (int q = U - 1; q >= 0; q--) if (m[y].b[q]) hwloc_bitmap_set(b[x], q); }
          else if (how == 1) { hwloc_bitmap_fill(b[x]); if (!m[y].tail) hwloc_bitmap_clr_range(b[x], U, -1); for (int q = 0; q < U; q++) if (!m[y].b[q]) hwloc_bitmap_clr(b[x], q); }
          else if (how == 2) { hwloc_bitmap_not(b[x], b[y]); hwloc_bitmap_not(b[x], b[x]); }
          else if (how == 3) { hwloc_bitmap_free(b[x]); b[x] = hwloc_bitmap_alloc(); for (unsigned w = 0; w < U / 64; w++) { unsigned long v = m[y].word(w); if (v) hwloc_bitmap_set_ith_ulong(b[x], w, v); } if (m[y].tail) hwloc_bitmap_set_range(b[x], U, -1); }
          else { hwloc_bitmap_copy(b[x], b[y]); hwloc_bitmap_set_ith_ulong(b[x], hi / 64, m[y].word(hi / 64)); }
          m[x] = m[y]; r.count("probe.rerep");
        } else { hwloc_bitmap_set(b[x], hi); if (!m[x].has(hi)) hwloc_bitmap_clr(b[x], hi); }
      }
      else if (k == "q1") { mutated = false; unary(r, x, "q1", (long)o.i("p")); r.count("queries", 11); }
      else if (k == "q2") { mutated = false; binary(r, x, y); }
      else if (k == "to_ulongs") {
        mutated = false; unsigned nr = (unsigned)(o.u("nr") % 36), w = (unsigned)(o.u("w") % 36);
        std::vector<unsigned long> out(nr + 2, 0xa5a5a5a5a5a5a5a5UL);
        hwloc_bitmap_to_ulongs(b[x], nr, out.data() + 1);
        if (out[0] != 0xa5a5a5a5a5a5a5a5UL || out[nr + 1] != 0xa5a5a5a5a5a5a5a5UL) r.fail0("bitmap.to_ulongs", "to_ulongs(nr=%u) wrote outside the array", nr);
        for (unsigned q = 0; q < nr; q++) if (out[q + 1] != m[x].word(q)) r.fail0("bitmap.to_ulongs", "to_ulongs word %u = %lx, model %lx", q, out[q + 1], m[x].word(q));
        if (hwloc_bitmap_to_ith_ulong(b[x], w) != m[x].word(w)) r.fail0("bitmap.to_ith_ulong", "to_ith_ulong(%u) = %lx, model %lx", w, hwloc_bitmap_to_ith_ulong(b[x], w), m[x].word(w));
        // foreach enumerates exactly the finite part in increasing order
        if (!m[x].tail) { long prev = -1; unsigned id; unsigned n = 0; hwloc_bitmap_foreach_begin(id, b[x]) { long e = m[x].next(prev); if ((long)id != e) r.fail0("bitmap.foreach", "foreach yields %u, model %ld", id, e); prev = id; n++; } hwloc_bitmap_foreach_end(); if ((long)n != m[x].weight()) r.fail0("bitmap.foreach", "foreach yields %u indexes, weight %ld", n, m[x].weight()); }
        r.count("queries", 3);
      }
      else if (k == "print") { mutated = false; print_op(r, x, (int)(o.u("fmt") % 3), o.i("len")); }
      else if (k == "roundtrip") { roundtrip(r, x, y, (int)(o.u("fmt") % 3)); x = y; }
      else if (k == "parse") { parse_op(r, y, (int)(o.u("fmt") % 3), o.s("s")); x = y; mutated = false; }
      else { mutated = false; }
      if (rc) r.fail("bitmap.rc", "%s returned %d", what, rc);
      if (mutated) { check(r, x, what); r.distinct("state", mix2(m[x].hash(), hash_str(k))); }
      r.ev("%s -> %016llx", k.c_str(), (unsigned long long)m[x].hash());
      // representation independence, checked directly: any two pool members with equal model sets
      if (mutated) for (int q = 0; q < POOL; q++) if (q != x && m[q] == m[x]) { same_rep(r, x, q); break; }
    }
  }

  void binary(Run &r, int x, int y) {
    const M &a = m[x], &c = m[y];
    bool eq = a == c, inc = m_included(a, c), inc2 = m_included(c, a), inter = m_intersects(a, c);
#define Q(name, got, exp) do { long g_ = (got), e_ = (exp); if (g_ != e_) r.fail0(std::string("bitmap.") + name, "%s(#%d,#%d): got %ld, set semantics give %ld", name, x, y, g_, e_); } while (0)
    Q("isequal", hwloc_bitmap_isequal(b[x], b[y]), eq); Q("isincluded", hwloc_bitmap_isincluded(b[x], b[y]), inc); Q("intersects", hwloc_bitmap_intersects(b[x], b[y]), inter);
    long fa = a.first(), fc = c.first();
    int ecf = (fa < 0 && fc < 0) ? 0 : fa < 0 ? 1 : fc < 0 ? -1 : fa < fc ? -1 : fa > fc ? 1 : 0;   // "empty is higher than anything"
    Q("compare_first", sgn(hwloc_bitmap_compare_first(b[x], b[y])), ecf);
    int ec = 0; if (a.tail != c.tail) ec = a.tail ? 1 : -1; else for (int q = U - 1; q >= 0; q--) if (a.b[q] != c.b[q]) { ec = a.b[q] ? 1 : -1; break; }
    Q("compare", sgn(hwloc_bitmap_compare(b[x], b[y])), ec);
    int eci = (a.empty() && c.empty()) ? BM_EQUAL : eq ? BM_EQUAL : a.empty() ? BM_INCLUDED : c.empty() ? BM_CONTAINS : inc ? BM_INCLUDED : inc2 ? BM_CONTAINS : inter ? BM_INTERSECTS : BM_DIFFERENT;
    Q("compare_inclusion", hwloc_bitmap_compare_inclusion(b[x], b[y]), eci);
#undef Q
    r.count("queries", 6);
    if (a.tail || c.tail) r.count("probe.q2_infinite");
  }

  // two pool members denote the same set: every query must agree between them and against a third
  void same_rep(Run &r, int x, int q) {
    r.count("probe.same_set_two_reps");
#define SAME(name, e1, e2) do { long a_ = (e1), b_ = (e2); if (a_ != b_) r.fail0(std::string("bitmap.repr_independence.") + name, "#%d and #%d hold the same set but %s gives %ld vs %ld (against #%d)", x, q, name, a_, b_, t); } while (0)
    for (int t = 0; t < POOL; t++) {
      SAME("compare", sgn(hwloc_bitmap_compare(b[x], b[t])), sgn(hwloc_bitmap_compare(b[q], b[t])));
      SAME("compare_first", sgn(hwloc_bitmap_compare_first(b[x], b[t])), sgn(hwloc_bitmap_compare_first(b[q], b[t])));
      SAME("compare_first", sgn(hwloc_bitmap_compare_first(b[t], b[x])), sgn(hwloc_bitmap_compare_first(b[t], b[q])));
      SAME("isincluded", hwloc_bitmap_isincluded(b[x], b[t]), hwloc_bitmap_isincluded(b[q], b[t]));
      SAME("isincluded", hwloc_bitmap_isincluded(b[t], b[x]), hwloc_bitmap_isincluded(b[t], b[q]));
      SAME("intersects", hwloc_bitmap_intersects(b[x], b[t]), hwloc_bitmap_intersects(b[q], b[t]));
      SAME("isequal", hwloc_bitmap_isequal(b[x], b[t]), hwloc_bitmap_isequal(b[q], b[t]));
      SAME("compare_inclusion", hwloc_bitmap_compare_inclusion(b[x], b[t]), hwloc_bitmap_compare_inclusion(b[q], b[t]));
    }
#undef SAME
    if (!hwloc_bitmap_isequal(b[x], b[q])) r.fail0("bitmap.repr_independence.isequal", "#%d and #%d hold the same set but are not isequal", x, q);
    for (int f = 0; f < 3; f++) { char *s1 = 0, *s2 = 0; asprint(f, &s1, b[x]); asprint(f, &s2, b[q]); bool same = s1 && s2 && !strcmp(s1, s2); std::string d = std::string(s1 ? s1 : "(null)") + " vs " + (s2 ? s2 : "(null)"); free(s1); free(s2); if (!same) { if (isC04) r.fail0("bitmap.print_repr_independence", "equal sets print differently in format %d: %s", f, d.c_str()); else r.cut_short("C04", "equal sets print differently in format %d: %s", f, d.c_str()); } }
  }

  static int asprint(int f, char **s, hwloc_const_bitmap_t bb) { return f == 0 ? hwloc_bitmap_asprintf(s, bb) : f == 1 ? hwloc_bitmap_list_asprintf(s, bb) : hwloc_bitmap_taskset_asprintf(s, bb); }
  static int snprint(int f, char *buf, size_t l, hwloc_const_bitmap_t bb) { return f == 0 ? hwloc_bitmap_snprintf(buf, l, bb) : f == 1 ? hwloc_bitmap_list_snprintf(buf, l, bb) : hwloc_bitmap_taskset_snprintf(buf, l, bb); }
  static int sscan(int f, hwloc_bitmap_t bb, const char *s) { return f == 0 ? hwloc_bitmap_sscanf(bb, s) : f == 1 ? hwloc_bitmap_list_sscanf(bb, s) : hwloc_bitmap_taskset_sscanf(bb, s); }

  void print_op(Run &r, int x, int f, int64_t lensel) {
    char *full = nullptr; int l = asprint(f, &full, b[x]);
    if (l < 0 || !full) r.fail0("bitmap.asprintf", "asprintf format %d failed", f);
    std::string fulls = full; free(full);
    if ((int)fulls.size() != l) r.fail0("bitmap.asprintf", "asprintf format %d returned %d for a text of length %zu", f, l, fulls.size());
    int need = snprint(f, nullptr, 0, b[x]);
    if (need != l) r.fail0("bitmap.snprintf_len", "snprintf(NULL,0) format %d = %d, asprintf length %d", f, need, l);
    // buflen: absolute small values, or relative to the needed length
    size_t bl = lensel >= 0 ? (size_t)(lensel % (l + 3)) : (size_t)std::max<long>(0, (long)l + 2 + lensel);
    std::vector<char> buf(bl + 32, (char)0x5a);
    int r2 = snprint(f, buf.data() + 16, bl, b[x]);
    if (r2 != l) r.fail0("bitmap.snprintf_len", "snprintf format %d buflen %zu returned %d, untruncated length is %d", f, bl, r2, l);
    for (int q = 0; q < 16; q++) if (buf[q] != 0x5a || buf[16 + bl + q] != 0x5a) r.fail0("bitmap.snprintf_bounds", "snprintf format %d buflen %zu wrote outside [buf,buf+buflen)", f, bl);
    if (bl > 0) {
      size_t wl = strnlen(buf.data() + 16, bl);
      if (wl >= bl) r.fail0("bitmap.snprintf_nul", "snprintf format %d buflen %zu: not NUL-terminated", f, bl);
      if (fulls.compare(0, wl, buf.data() + 16, wl) != 0) r.fail0("bitmap.snprintf_prefix", "snprintf format %d buflen %zu: '%s' is not a prefix of '%s'", f, bl, buf.data() + 16, fulls.c_str());
      if ((long)bl > l && wl != (size_t)l) r.fail0("bitmap.snprintf_prefix", "snprintf format %d buflen %zu > length %d but text has %zu chars", f, bl, l, wl);
    }
    r.count("prints"); if ((long)bl <= l) r.count("probe.print_truncated");
    r.distinct("print", mix2(hash_str(fulls), f));
  }

  void roundtrip(Run &r, int x, int y, int f) {
    char *s = nullptr; int l = asprint(f, &s, b[x]);
    if (l < 0 || !s) r.fail0("bitmap.asprintf", "asprintf format %d failed", f);
    std::string str = s; free(s);
    M before = m[x];
    int rc = sscan(f, b[y], str.c_str());
    if (rc) { if (isC04) r.fail0("bitmap.roundtrip", "sscanf format %d rejected its own output '%s'", f, str.c_str()); else r.cut_short("C04", "sscanf rejected its own output"); }
    m[y] = before;
    if (isC04) { for (long i = 0; i < U; i++) if (!!hwloc_bitmap_isset(b[y], (unsigned)i) != before.has(i)) r.fail0("bitmap.roundtrip", "format %d: '%s' parses back with bit %ld = %d", f, str.c_str(), i, hwloc_bitmap_isset(b[y], (unsigned)i)); if (!!hwloc_bitmap_isset(b[y], 1000003) != before.tail) r.fail0("bitmap.roundtrip", "format %d: '%s' parses back with a different infinite tail", f, str.c_str()); }
    else { for (long i = 0; i < U; i++) if (!!hwloc_bitmap_isset(b[y], (unsigned)i) != before.has(i)) r.cut_short("C04", "print/parse round trip changed the set"); }
    check(r, y, "roundtrip");
    r.count("roundtrips"); if (before.tail) r.count("probe.roundtrip_infinite");
  }

  void parse_op(Run &r, int y, int f, const std::string &str) {
    // pure-input clause: arbitrary string -> 0 or -1, no memory error (ASan), accepted text stable under print-then-parse
    if (f == 1) {   // domain limit: the list parser hands every number strtoul() accepts (also negative or > INT_MAX) to
                    // hwloc_bitmap_set(); an index >= 2^20 makes hwloc allocate up to 512 MB per op. Such strings are skipped.
      const char *c = str.c_str();
      while (*c) {
        bool num = (*c >= '0' && *c <= '9') || ((*c == '-' || *c == '+') && c[1] >= '0' && c[1] <= '9');
        if (num) { char *e; errno = 0; unsigned long v = strtoul(c, &e, 0); if (errno || v >= (1UL << 20)) { r.count("parse_skipped_huge_index"); return; } c = e > c ? e : c + 1; } else c++;
      }
    }
    r.count("pure_input_evaluations");
    std::vector<char> z(str.size() + 1); memcpy(z.data(), str.c_str(), str.size() + 1);   // exact-size heap copy: over-reads are caught by ASan
    int rc = sscan(f, b[y], z.data());
    if (rc != 0 && rc != -1) r.fail0("bitmap.parse_rc", "sscanf format %d returned %d", f, rc);
    if (rc == 0) {
      r.count("probe.parse_accepted");
      // whatever was accepted: read the value back through isset (within the universe), print, parse, compare
      char *s = nullptr; asprint(f, &s, b[y]); hwloc_bitmap_t t = hwloc_bitmap_alloc(); int rc2 = s ? sscan(f, t, s) : -1; bool same = !rc2 && hwloc_bitmap_isequal(t, b[y]); std::string ss = s ? s : "(null)"; free(s); hwloc_bitmap_free(t);
      if (!same) r.fail0("bitmap.parse_stable", "'%s' accepted by sscanf format %d, printed as '%s', which does not parse back to the same set", str.c_str(), f, ss.c_str());
    }
    // after a parse (accepted or rejected) the content of #y is re-synchronised with the model by reading it back
    hwloc_bitmap_t bb = b[y]; M mm; bool ok = true;
    for (long i = 0; i < U; i++) mm.b[i] = !!hwloc_bitmap_isset(bb, (unsigned)i);
    mm.tail = hwloc_bitmap_isset(bb, 1000003);
    // the parsed set may exceed the universe (e.g. "4294967295"): then reset the slot instead of modelling it
    int last = hwloc_bitmap_last(bb), lastu = hwloc_bitmap_last_unset(bb);
    if ((!mm.tail && last >= U) || (mm.tail && lastu >= U)) ok = false;
    if (!ok) { hwloc_bitmap_zero(bb); mm = M(); }
    m[y] = mm;
  }
};

}  // namespace

int main(int argc, char **argv) { BitmapMachine m; for (int i = 0; i < POOL; i++) m.b[i] = nullptr; return worker_main(argc, argv, m); }
