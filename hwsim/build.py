#!/usr/bin/env python3
"""Build hwloc (from the working tree of $HWSIM_REPO, default /repo) and the hwsim drivers.

Nothing from /repo/hwloc/.libs is used: the enabled sources are compiled directly, per variant,
into /verif/build/<variant>-<hash>/ where <hash> covers every input of the build (hwloc sources and
headers, harness sources, flags), so an edit of /repo always triggers a rebuild and an unchanged
tree is built once.
"""
import hashlib, os, subprocess, sys, shutil, glob
from concurrent.futures import ThreadPoolExecutor

VERIF = os.path.dirname(os.path.dirname(os.path.abspath(__file__)))
REPO = os.environ.get("HWSIM_REPO", "/repo")
GUARD = "HWLOC_VERIF_SIM"

HWLOC_SOURCES = ["topology", "traversal", "distances", "memattrs", "cpukinds", "components", "bind", "bitmap",
                 "pci-common", "diff", "shmem", "misc", "base64", "topology-noos", "topology-synthetic",
                 "topology-xml", "topology-xml-nolibxml", "topology-xml-libxml", "topology-pci",
                 "topology-linux", "topology-hardwired", "topology-x86"]

COMMON_DEFS = ["-DHAVE_CONFIG_H", "-DHWLOC_INSIDE_LIBHWLOC", "-D" + GUARD, '-DHWLOC_PLUGINS_PATH=""',
               '-DRUNSTATEDIR="/var/run"']
LIBS = ["-lxml2", "-lpciaccess", "-ludev", "-lm", "-lpthread", "-ldl"]

VARIANTS = {
    # single-threaded machines: ASan+UBSan, trace-pc-guard feeds the deterministic step counter
    "asan": dict(
        cc="clang", cxx="clang++",
        san=["-fsanitize=address,undefined", "-fno-sanitize=pointer-overflow,null,object-size,nonnull-attribute", "-fno-sanitize-recover=undefined",
             "-fno-omit-frame-pointer"],
        sut_extra=["-fsanitize-coverage=trace-pc-guard"],
        opt=["-O1", "-g"],
        link=["-fsanitize=address,undefined", "-Wl,--wrap=__assert_fail"],
    ),
    # C17: TSan instrumentation at compile time only, our own runtime (sched_rt.cc) at link time
    "sched": dict(
        cc="clang", cxx="clang++",
        san=[],
        sut_extra=["-fsanitize=thread"],
        opt=["-O1", "-g"],
        link=["-Wl,--wrap=__assert_fail", "-no-pie"],
    ),
}

# driver name -> (variant, harness sources relative to hwsim/, extra link flags, sources that get SUT instrumentation)
DRIVERS = {
    "bitmap": dict(variant="asan", src=["core/core.cc", "bitmap/machine_bitmap.cc"], link=[]),
    "topo": dict(variant="asan", src=["core/core.cc", "topo/dump.cc", "topo/wf.cc", "topo/src.cc", "topo/ops_core.cc", "topo/ops_repl.cc", "topo/ops_aux.cc", "topo/ops_diff.cc", "topo/ops_shm.cc", "topo/battery.cc", "topo/ops_xmlfault.cc",
                                      "topo/ops_snapshot.cc", "topo/fswrap.cc", "topo/machine_topo.cc"],
                 link=["-Wl,--wrap=readdir,--wrap=closedir,--wrap=rewinddir"]),   # readdir seam of the simulated disk (topo/fswrap.cc)
    # C10: hwloc's Linux binding hooks against the kernel model (bind/kmodel.cc); the real kernel is never asked
    "bind": dict(variant="asan", src=["core/core.cc", "bind/kmodel.cc", "bind/machine_bind.cc"],
                 link=["-Wl,--wrap=sched_setaffinity,--wrap=sched_getaffinity,--wrap=sched_getcpu,--wrap=syscall,"
                       "--wrap=pthread_setaffinity_np,--wrap=pthread_getaffinity_np,--wrap=openat,--wrap=sysconf"]),
}


# C17: hwloc + the driver carry the compile-time half of TSan; sched/sched_rt.cc is the runtime (baton scheduler + HB race detector)
DRIVERS["sched"] = dict(
    variant="sched", src=["core/core.cc", "sched/sched_rt.cc", "sched/machine_sched.cc"],
    instrumented=["sched/machine_sched.cc"],   # hwloc's static inline helpers (helper.h) live in the driver: instrument them too
    link=["-Wl,--wrap=malloc,--wrap=calloc,--wrap=realloc,--wrap=free,--wrap=strdup,--wrap=memcpy,--wrap=memmove,--wrap=memset,"
          "--wrap=qsort,--wrap=pthread_mutex_lock,--wrap=pthread_mutex_unlock,--wrap=getenv"])


def sh(cmd, **kw):
    return subprocess.run(cmd, stdout=subprocess.PIPE, stderr=subprocess.STDOUT, text=True, **kw)


def file_hash(paths, extra=""):
    h = hashlib.sha256()
    h.update(extra.encode())
    for p in sorted(paths):
        h.update(p.encode())
        try:
            with open(p, "rb") as f:
                h.update(f.read())
        except OSError:
            h.update(b"<missing>")
    return h.hexdigest()[:16]


def sut_inputs():
    files = glob.glob(REPO + "/hwloc/*.c") + glob.glob(REPO + "/hwloc/*.h")
    for root, _, names in os.walk(REPO + "/include"):
        for n in names:
            if n.endswith(".h"):
                files.append(os.path.join(root, n))
    return files


def harness_inputs(driver=None):
    """Sources that can influence a driver: the directories of its own sources plus core/ (not other machines')."""
    dirs = None
    if driver is not None:
        dirs = set(["core"] + [os.path.dirname(x) for x in DRIVERS[driver]["src"]])
    files = []
    for root, _, names in os.walk(VERIF + "/hwsim"):
        rel = os.path.relpath(root, VERIF + "/hwsim")
        if dirs is not None and rel.split(os.sep)[0] not in dirs:
            continue
        for n in names:
            if n.endswith((".cc", ".h", ".c")):
                files.append(os.path.join(root, n))
    files.append(os.path.abspath(__file__))
    return files


def include_flags():
    inc = ["-I" + REPO + "/include", "-I/usr/include/libxml2"]
    # a git worktree of /repo has no generated config.h: fall back to /repo's
    if not os.path.exists(REPO + "/include/private/autogen/config.h"):
        fb = VERIF + "/build/cfgfallback"
        os.makedirs(fb + "/private/autogen", exist_ok=True)
        os.makedirs(fb + "/hwloc/autogen", exist_ok=True)
        shutil.copy("/repo/include/private/autogen/config.h", fb + "/private/autogen/config.h")
        shutil.copy("/repo/include/hwloc/autogen/config.h", fb + "/hwloc/autogen/config.h")
        if not os.path.exists(REPO + "/hwloc/static-components.h"):
            shutil.copy("/repo/hwloc/static-components.h", fb + "/static-components.h")
        inc.append("-I" + fb)
    return inc


def build(driver, quiet=True):
    """Returns path of the driver binary; raises RuntimeError on failure. Builds are serialised by a lock file: checks may
    be started concurrently and share the object cache."""
    import fcntl
    os.makedirs(VERIF + "/build", exist_ok=True)
    with open(VERIF + "/build/.lock", "w") as lk:
        fcntl.flock(lk, fcntl.LOCK_EX)
        binp = _build(driver, quiet)
        os.utime(binp)   # in use: keep it away from gc_builds of later builds
        return binp


def _build(driver, quiet=True):
    d = DRIVERS[driver]
    v = VARIANTS[d["variant"]]
    inc = include_flags()
    key = file_hash(sut_inputs() + harness_inputs(driver), extra=repr((d, v, REPO)))
    bdir = "%s/build/%s-%s" % (VERIF, d["variant"], file_hash(sut_inputs(), extra=repr((v, REPO))))
    os.makedirs(bdir, exist_ok=True)
    binp = "%s/build/bin/%s-%s" % (VERIF, driver, key)
    if os.path.exists(binp):
        return binp
    os.makedirs(os.path.dirname(binp), exist_ok=True)
    jobs = []
    objs = []
    for s in HWLOC_SOURCES:
        o = "%s/%s.o" % (bdir, s)
        objs.append(o)
        if not os.path.exists(o):
            jobs.append([v["cc"], "-c"] + v["opt"] + v["san"] + v["sut_extra"] + COMMON_DEFS + inc +
                        ["-Wno-everything", "%s/hwloc/%s.c" % (REPO, s), "-o", o])
    hdir = "%s/h-%s-%s" % (bdir, driver, key)
    os.makedirs(hdir, exist_ok=True)
    for s in d["src"]:
        o = "%s/%s.o" % (hdir, s.replace("/", "_"))
        objs.append(o)
        flags = v["opt"] + v["san"] + ["-std=c++17", "-Wall", "-Wno-unused-function", "-D" + GUARD] + inc
        if s in d.get("instrumented", []):
            flags += v["sut_extra"]
        if s.endswith(".c"):
            flags = [f for f in flags if f != "-std=c++17"]
            jobs.append([v["cc"], "-c"] + flags + [VERIF + "/hwsim/" + s, "-o", o])
        else:
            jobs.append([v["cxx"], "-c"] + flags + [VERIF + "/hwsim/" + s, "-o", o])
    with ThreadPoolExecutor(max_workers=16) as ex:
        results = list(ex.map(lambda c: (c, sh(c)), jobs))
    for c, r in results:
        if r.returncode:
            for o in objs:  # do not leave half-built objects behind
                pass
            raise RuntimeError("compile failed: %s\n%s" % (" ".join(c), r.stdout))
        if r.stdout.strip() and not quiet:
            sys.stderr.write(r.stdout)
    tmp = binp + ".tmp.%d" % os.getpid()
    r = sh([v["cxx"]] + objs + v["link"] + d.get("link", []) + LIBS + ["-o", tmp])
    if r.returncode:
        raise RuntimeError("link failed:\n" + r.stdout)
    os.rename(tmp, binp)
    shutil.rmtree(hdir, ignore_errors=True)
    gc_builds()
    return binp


def gc_builds(keep=6):
    """Keep disk use bounded: remove all but the newest few variant dirs and binaries."""
    for pat in (VERIF + "/build/asan-*", VERIF + "/build/sched-*"):
        ds = sorted(glob.glob(pat), key=os.path.getmtime, reverse=True)
        for d in ds[keep:]:
            shutil.rmtree(d, ignore_errors=True)
    bins = sorted(glob.glob(VERIF + "/build/bin/*"), key=os.path.getmtime, reverse=True)
    for b in bins[40:]:
        try:
            os.unlink(b)
        except OSError:
            pass


if __name__ == "__main__":
    # setup = cache warm-up; every check rebuilds what it needs anyway, so a driver that does not build is reported, not fatal
    for drv in (sys.argv[1:] or list(DRIVERS)):
        try:
            print(build(drv, quiet=False))
        except RuntimeError as e:
            sys.stderr.write("build of %s failed:\n%s\n" % (drv, e))
            if sys.argv[1:]:
                sys.exit(1)
