"""Per-property check configuration (budgets, evidence wording)."""
import os
from runner import Check

REAL_ALL = ["hwloc core and back-ends compiled from the /repo working tree (asserts on, ASan+UBSan)", "libc", "libxml2"]
ASSUME = ["a clean batch is evidence, not proof: seeded search over plans",
          "harness reference models and clang sanitizers are trusted"]


def wall(tier, quick, thorough):
    v = os.environ.get("HWSIM_WALL")
    return float(v) if v else (quick if tier == "quick" else thorough)


def c03(tier):
    c = Check("C03", "bitmap", 3, tier)
    c.wall_budget = wall(tier, 25, 1200)
    c.rule = ("one evaluation = one seeded history of 20-200 bitmap ops on a pool of 6 bitmaps, every mutator read back bit by bit "
              "against the set model and every query compared with the model; distinct_nontrivial = number of distinct "
              "(model set after a mutating op, op kind) pairs reached (hash set merged over workers); trivial = anything that "
              "did not mutate a bitmap")
    c.real_components = ["hwloc/bitmap.c from the /repo working tree (ASan+UBSan)"]
    c.stubbed_components = []
    c.assumptions = ASSUME + ["indexes < 2304; allocator failure is not injected (not in the statement)"]
    return c


def c04(tier):
    c = Check("C04", "bitmap", 4, tier)
    c.wall_budget = wall(tier, 25, 1200)
    c.nontrivial_set = "print"
    c.rule = ("one evaluation = one seeded history on the bitmap pool with print/parse ops weighted up: snprintf in the three formats "
              "for buffer lengths 0..needed+1 with guard bytes, asprintf, print->parse into a differently shaped pool member; "
              "distinct_nontrivial = number of distinct (printed text, format) pairs produced from history-built bitmaps; "
              "parsing of arbitrary strings is a pure-input clause, counted apart in pure_input_evaluations")
    c.real_components = ["hwloc/bitmap.c from the /repo working tree (ASan+UBSan)"]
    c.assumptions = ASSUME + ["the pure-input clause (arbitrary strings) is only sampled; the level rests on the history-dependent print/parse ops"]
    return c


CHECKS = {"C03": c03, "C04": c04}
