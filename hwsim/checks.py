"""Per-property check configuration (budgets, evidence wording)."""
import os
from runner import Check

REAL_ALL = ["hwloc core and back-ends compiled from the /repo working tree (asserts on, ASan+UBSan)", "libc", "libxml2"]
ASSUME = ["a clean batch is evidence, not proof: seeded search over plans",
          "harness reference models and clang sanitizers are trusted"]


def wall(tier, quick, thorough):
    v = os.environ.get("HWSIM_WALL")
    return float(v) if v else (quick if tier == "quick" else thorough)


def c03(tier):
    c = Check("C03", "bitmap", 3, tier)
    c.wall_budget = wall(tier, 25, 1200)
    c.rule = ("one evaluation = one seeded history of 20-200 bitmap ops on a pool of 6 bitmaps, every mutator read back bit by bit "
              "against the set model and every query compared with the model; distinct_nontrivial = number of distinct "
              "(model set after a mutating op, op kind) pairs reached (hash set merged over workers); trivial = anything that "
              "did not mutate a bitmap")
    c.real_components = ["hwloc/bitmap.c from the /repo working tree (ASan+UBSan)"]
    c.stubbed_components = []
    c.assumptions = ASSUME + ["indexes < 2304; allocator failure is not injected (not in the statement)"]
    return c


def c04(tier):
    c = Check("C04", "bitmap", 4, tier)
    c.wall_budget = wall(tier, 25, 1200)
    c.nontrivial_set = "print"
    c.rule = ("one evaluation = one seeded history on the bitmap pool with print/parse ops weighted up: snprintf in the three formats "
              "for buffer lengths 0..needed+1 with guard bytes, asprintf, print->parse into a differently shaped pool member; "
              "distinct_nontrivial = number of distinct (printed text, format) pairs produced from history-built bitmaps; "
              "parsing of arbitrary strings is a pure-input clause, counted apart in pure_input_evaluations")
    c.real_components = ["hwloc/bitmap.c from the /repo working tree (ASan+UBSan)"]
    c.assumptions = ASSUME + ["the pure-input clause (arbitrary strings) is only sampled; the level rests on the history-dependent print/parse ops"]
    return c



def _topo(prop, mid, tier, q, t):
    c = Check(prop, "topo", mid, tier)
    c.wall_budget = wall(tier, q, t)
    c.workers = int(os.environ.get("HWSIM_WORKERS", "16"))
    c.real_components = REAL_ALL
    c.stubbed_components = ["none (topologies come from synthetic strings and XML files; no OS call is involved)"]
    c.assumptions = ASSUME + ["allocator failure is not injected (not named by the statement; many unchecked mallocs in hwloc)"]
    return c


def c01(tier):
    c = _topo("C01", 1, tier, 40, 1500)
    c.rule = ("one evaluation = one configure/load history (per-type filter assignment incl. refused ones, flag word incl. illegal ones, "
              "source = generated synthetic string or corpus XML via file or buffer, refused calls after load) followed by the independent "
              "well-formedness checker and hwloc_topology_check(); distinct_nontrivial = distinct canonical dumps of successfully loaded topologies")
    return c


def c02(tier):
    c = _topo("C02", 2, tier, 60, 1800)
    c.rule = ("one evaluation = one seeded history of 3-40 modifying calls (valid and invalid arguments) on a loaded topology; after every "
              "step: full canonical dump, independent WF checker + hwloc_topology_check(), unchanged-on-documented-error, gp_index and "
              "userdata stability; distinct_nontrivial = distinct (canonical dump after an op, op kind) pairs")
    return c


def c08(tier):
    c = _topo("C08", 8, tier, 60, 1800)
    c.rule = ("one evaluation = one history with restrict weighted up (all 32 flag words + an unknown bit; sub/super/disjoint/infinite sets) "
              "on topologies carrying Misc and I/O objects; every restrict is judged by the relational before/after oracle keyed by gp_index; "
              "distinct_nontrivial = distinct (canonical dump after an op, op kind) pairs")
    return c



def c10(tier):
    c = Check("C10", "bind", 10, tier)
    c.wall_budget = wall(tier, 50, 1200)
    c.det_seeds = 64 if tier == "quick" else 400
    c.rule = ("one evaluation = one seeded run: a topology (synthetic string, corpus XML file, or x86 discovery on the model's CPUs) loaded "
              "foreign / with IS_THISSYSTEM / with HWLOC_THISSYSTEM=1, the model kernel shaped after it (CPUs offline or disallowed, a node "
              "without memory), then 6-80 binding calls on it, on a dup'ed and on re-loaded replicas, every call judged by clauses (1)-(6) of "
              "DESIGN.md C10 against what the model kernel received; distinct_nontrivial = number of distinct (entry point, argument class, "
              "flag word, policy, result/errno, environment, process class) tuples reached (hash set merged over workers); trivial = anything "
              "that repeats a tuple already seen")
    c.real_components = ["hwloc/bind.c (validation, fix-ups, dispatch, dummy hooks) from the /repo working tree (ASan+UBSan, asserts on)",
                         "hwloc/topology-linux.c binding hooks: cpu_set_t / nodemask conversion, kernel cpumask and MAX_NUMNODES sizing loops, "
                         "/proc/<pid>/task walk (real procfs), MPOL_PREFERRED_MANY fallback: real code",
                         "hwloc/topology-x86.c look_procs bind-per-PU/restore (real cpuid instruction, model CPUs)",
                         "hwloc synthetic / XML back-ends, hwloc_topology_dup, include/hwloc/helper.h conversions, libc, libxml2"]
    c.stubbed_components = ["the kernel: sched_setaffinity, sched_getaffinity, sched_getcpu, pthread_setaffinity_np, pthread_getaffinity_np, "
                            "syscall(set_mempolicy|get_mempolicy|mbind|migrate_pages|move_pages), /sys/devices/system/{cpu,node}/possible, "
                            "/proc/<tid>/stat, sysconf(_SC_NPROCESSORS_*) are served by hwsim/bind/kmodel.cc under --wrap; the real kernel is never "
                            "asked about binding"]
    c.assumptions = ASSUME + [
        "the clause 'on the running system' is decided against the model kernel (fidelity to sched_setaffinity(2), set_mempolicy(2), mbind(2), "
        "get_mempolicy(2) as implemented in kmodel.cc is trusted), not against Linux",
        "hwloc caches the probed kernel cpumask size, MAX_NUMNODES and the MPOL_PREFERRED_MANY verdict in statics: they are fixed per worker "
        "process (20 process classes) and probed once per process in an unlogged warm-up that applies clauses (2) and (5)",
        "one calling thread plus one parked helper thread; pids other than the process itself are not used; HWLOC_TOPOLOGY_FLAG_THISSYSTEM_ALLOWED_RESOURCES "
        "and hwloc_topology_set_pid() are not used (they read the sandbox's real cgroup / another process)",
        "native discovery of the sandbox (components linux / linux,x86) is only checked for clause (6); what it discovers is not logged",
        "allocator failure is not injected (not in the statement)"]
    return c

def c12(tier):
    c = _topo("C12", 12, tier, 50, 1500)
    c.rule = ("one evaluation = one history in which hwloc_topology_dup is taken at arbitrary points (also of dups and XML-restarted replicas), "
              "followed by ops on either copy, ops applied to both in lock-step, and destroy in seeded order; oracles: dump and XML export equal at "
              "dup time, the untouched copy never moves, lock-step keeps them equal, ASan/LSan at destroy; distinct_nontrivial = distinct "
              "(canonical dump after an op, op kind) pairs")
    return c


def c05(tier):
    c = _topo("C05", 5, tier, 70, 1800)
    c.rule = ("one evaluation = one history with xml_restart (export via file or buffer, v3 or v2 format, reload with the same flags and all types "
              "kept) at arbitrary points; the four nolibxml/libxml export x import pairings are process classes; oracles: projected dump equal, "
              "userdata records delivered exactly as exported, re-export byte-identical, lock-step of later ops; distinct_nontrivial = distinct "
              "(canonical dump after an op, op kind) pairs")
    return c


def c13(tier):
    c = _topo("C13", 13, tier, 50, 1500)
    c.rule = ("one evaluation = one history of distances ops (add with valid/invalid kinds, flags, sizes 0-6, homogeneous/mixed objects, grouping; "
              "get/by_type/by_depth/by_name with short arrays; removals; transforms on returned copies) interleaved with restrict, dup, xml_restart; "
              "the reference list is compared with what the topology reports after every op; distinct_nontrivial = distinct (canonical dump after an op, op kind) pairs")
    return c


def c14(tier):
    c = _topo("C14", 14, tier, 50, 1500)
    c.rule = ("one evaluation = one history of memattr register/set_value (cpuset initiators kept pairwise disjoint per target, object initiators, "
              "missing initiators, read-only attributes) and get_value/targets/initiators/best-of/local-node/default-nodeset queries, interleaved "
              "with restrict, dup, xml_restart; reference table compared after every op; distinct_nontrivial = distinct (canonical dump after an op, op kind) pairs")
    return c


def c15(tier):
    c = _topo("C15", 15, tier, 30, 1200)
    c.rule = ("one evaluation = one history of cpukinds_register calls (cpusets inside/outside/straddling, forced efficiencies -3..4, info arrays, bad "
              "flags, NULL/empty sets) interleaved with restrict, dup, xml_restart and by-cpuset queries; the reference partition (PUs grouped by the "
              "set of covering registrations) is compared after every op; distinct_nontrivial = distinct (canonical dump after an op, op kind) pairs")
    return c


def c16(tier):
    c = _topo("C16", 16, tier, 40, 1500)
    c.rule = ("one evaluation = one history in which diff ops take a private annotated copy A of a replica, derive B by seeded representable "
              "(rename, info value, local memory, topology info) and non-representable edits, then build/apply/re-build/reverse, persist the diff as XML "
              "(file or buffer, both back-ends as process classes) and apply chained lists with one poisoned entry for roll-back; "
              "distinct_nontrivial = distinct (canonical dump after an op, op kind) pairs")
    return c


def c19(tier):
    c = _topo("C19", 19, tier, 50, 1500)
    c.rule = ("one evaluation = one history in which replicas are written to a backing file on the simulated disk (pattern-filled, four page offsets, "
              "harness-chosen address range with PROT_NONE guard pages) and adopted, after one injected fault (wrong address/length/offset/flags, occupied "
              "range, flipped header byte, flipped ABI byte); the adopted replica then receives the whole op alphabet: modifying calls must be refused "
              "with EPERM, consulting calls and allow() must work, destroy must release the range; distinct_nontrivial = distinct (canonical dump after an op, op kind) pairs")
    c.stubbed_components = ["none: real open/write/mmap on files of the per-worker scratch directory (tmpfs)"]
    return c


def c09(tier):
    c = _topo("C09", 9, tier, 45, 1500)
    c.rule = ("one evaluation = one modifying history (restrict, Group/Misc insertion, distance grouping, dup, xml_restart, shm adoption) with the "
              "read-only battery run at seeded points on the reached state: 5-45 sampled query sets/objects per battery, every helper compared with a "
              "brute-force evaluation of its documented definition over the canonical dump; the helper-vs-definition relation is a state invariant, the "
              "sampled queries are input generation (counted in counters.queries); distinct_nontrivial = distinct (canonical dump after an op, op kind) pairs")
    return c


def c06(tier):
    c = _topo("C06", 6, tier, 60, 1800)
    c.rule = ("one evaluation = one history in which the XML a replica was persisted as (v3 or v2 export of a history-built state, or a corpus "
              "2.x file) or a diff XML is damaged between writer and reader by 1-3 seeded faults (truncate, bit flip, zeroed/duplicated/swapped "
              "blocks, attribute value replaced by boundary/garbage values, line dropped/duplicated/moved, version changed) and loaded through file "
              "or buffer (exact size, shorter size, missing NUL) by both back-ends (process classes); oracles: 0/-1, no sanitizer report, no failed "
              "assertion, step budget, leak check, on success WF + read-only battery (helpers, printers with every flag word, distances/memattr/"
              "cpukind queries, XML v3/v2 and synthetic export, dup, destroy), on failure reconfigure + load; distinct_nontrivial = distinct "
              "(canonical dump after an op, op kind) pairs; faults_fired counts each kind that was actually applied")
    return c


def c18(tier):
    import json, re
    c = _topo("C18", 18, tier, 80, 2400)
    c.level = "fault_enumeration"
    c.rule = ("one evaluation = one run of 3-8 snap_load ops; each op picks one bundled snapshot (42 Linux sysfs/procfs trees, "
              "29 x86 CPUID dumps, 2 x86+linux pairs; uniformly), one applicable HWLOC_COMPONENTS selection (linux,stop | x86,stop | for pairs also "
              "x86,linux,stop / linux,x86,stop), a per-type filter assignment, a flag subset, optionally the tuning variables the test suite "
              "uses for that snapshot, a readdir order (sorted, or a seeded permutation in 1/4 of the ops) and a removal set of 0 (1/4), 1-3 (1/2) "
              "or 4-40 (1/4) removable paths (regular files, symlinks, directories whose name does not end in a digit; for CPUID dumps half of "
              "the non-empty sets are dropped again because any removal but the last pu file makes hwloc reject the dump) that are renamed away "
              "for the duration of the loads and always put back; oracles per op: load returns 0 or -1 (after -1 the untouched snapshot must "
              "load on a fresh topology), WF + read-only battery, second load byte-identical in the canonical dump, INCLUDE_DISALLOWED view "
              "contains every PU/NUMA node of the default view and its allowed sets equal the default root sets, the topology reloaded from "
              "its own XML export (same flags, all types kept) has the same projected dump; sanitizer reports, assertions, leaks and step-budget "
              "overruns are judged by the runner. counters.snap_loads = hwloc_topology_load calls on snapshots. distinct_nontrivial = distinct "
              "(snapshot, component selection, filters, flags, env, readdir seed, set of paths actually removed, canonical dump of the result | "
              "clean failure) tuples; a run is trivial when all its tuples were seen before. A removal that makes hwloc reject the CPUID dump "
              "directory makes the x86 back-end execute the host's CPUID instruction: such loads are judged by return value, WF and battery only "
              "and nothing of their result enters the event log (probe snap_cpuid_dump_rejected_host_cpuid_used). thorough tier only: snap_enum ops "
              "sweep, a chunk per op, ALL single and pairwise removals under sys/devices/system of the snapshots with fewer than 400 removable "
              "paths there (return value, reload after failure, WF; the full read-only battery on every single removal and on a seeded eighth of the pairs); the swept part is reported in coverage.fault_enumeration "
              "(distinct elements executed / size of the space, per snapshot; exhaustive = every element of the space was executed in this batch)")
    c.real_components = ["hwloc/topology-linux.c, topology-x86.c, topology-hardwired.c, pci-common.c, components.c, topology.c and the rest of "
                         "hwloc compiled from the /repo working tree (ASan+UBSan, asserts on): real discovery code",
                         "files: the bundled tarballs of tests/hwloc/{linux,x86,x86+linux} extracted on tmpfs (one read-only master per batch; every worker "
                         "process loads removal sets from a private tree whose directories are its own and whose files/symlinks are hard links to the master); real "
                         "open/openat/read/readlink/stat on real files; removal = real rename() out of the tree and back",
                         "libc, libxml2 (XML restart)"]
    c.stubbed_components = ["readdir ORDER: decided by the simulator (entries of every directory are drained, then served sorted by name or in "
                            "a permutation seeded by the plan; hwsim/topo/fswrap.cc under --wrap=readdir,closedir,rewinddir); entries themselves are real",
                            "the kernel: absent; the snapshots replace sysfs/procfs (HWLOC_FSROOT) and the CPUID instruction (HWLOC_CPUID_PATH); "
                            "HWLOC_COMPONENTS always ends in 'stop' so no other back-end (pci, opencl, ...) looks at the host"]
    c.assumptions = ASSUME + ["removal sets are sampled (<= 40 paths); only the single/pairwise removals under sys/devices/system of the small snapshots are enumerated, in the thorough tier",
                              "equality of the results under different readdir orders is not an oracle (any order is legal kernel behaviour; gp_index and I/O sibling "
                              "order follow it); it is measured by probes snap_order_compared / snap_order_changes_result",
                              "component selections without 'stop', and selections whose back-end would read the host (x86 on a Linux-only snapshot, linux on a CPUID dump) are not used",
                              "allocator failure and read errors (EIO, short reads) are not injected: the statement names removal only"]
    base_execute = c.execute

    def execute():
        rc = base_execute()
        # the shared master copy of the extracted tarballs (hwsim/topo/ops_snapshot.cc) is named after this process
        import shutil
        sb = os.environ.get("HWSIM_SCRATCH", "/dev/shm")
        for base in (sb, os.environ.get("TMPDIR", "/tmp")):
            shutil.rmtree(os.path.join(base, "hwsim.%d.snapmaster" % os.getpid()), ignore_errors=True)
        path = os.path.join(os.environ.get("HWSIM_EVIDENCE_DIR", os.path.join(os.path.dirname(os.path.dirname(os.path.abspath(__file__))), "evidence")), "C18.json")
        try:
            with open(path) as f:
                ev = json.load(f)
            cov = ev["coverage"]
            cnt = cov.get("counters", {})
        except (OSError, ValueError, KeyError):
            return rc
        space = {}
        for k in list(cnt):
            m = re.match(r"enumspace\.(.+)\.(\d+)$", k)
            if m:
                space[m.group(1)] = int(m.group(2))
                del cnt[k]
        ds = cov.get("distinct_sets", {})
        per = {}
        for name, n in sorted(space.items()):
            key = re.sub(r"[^A-Za-z0-9]", "_", name)
            d1 = ds.pop("enumS-" + key, {}).get("count", 0)
            d2 = ds.pop("enumP-" + key, {}).get("count", 0)
            per[name] = {"removable_paths_under_sys_devices_system": n,
                         "single": {"space": n, "distinct_done": d1, "exhaustive": d1 == n},
                         "pairwise": {"space": n * (n - 1) // 2, "distinct_done": d2, "exhaustive": d2 == n * (n - 1) // 2}}
        s1 = sum(v["single"]["space"] for v in per.values())
        s2 = sum(v["pairwise"]["space"] for v in per.values())
        d1 = sum(v["single"]["distinct_done"] for v in per.values())
        d2 = sum(v["pairwise"]["distinct_done"] for v in per.values())
        cov["fault_enumeration"] = {
            "what": "all single and all pairwise removals under sys/devices/system of every snapshot with < 400 removable paths there "
                    "(thorough tier; chunks are drawn by the run seeds, so coverage is counted, not assumed)",
            "single": {"space": s1, "distinct_done": d1, "exhaustive": bool(per) and d1 == s1},
            "pairwise": {"space": s2, "distinct_done": d2, "exhaustive": bool(per) and d2 == s2},
            "snapshots": per,
        }
        with open(path, "w") as f:
            json.dump(ev, f, indent=1, sort_keys=False)
            f.write("\n")
        if tier == "thorough":
            c.log("fault enumeration: single %d/%d, pairwise %d/%d over %d small snapshots" % (d1, s1, d2, s2, len(space)))
        return rc

    c.execute = execute
    return c


CHECKS = {"C18": c18, "C06": c06, "C09": c09, "C19": c19, "C16": c16, "C13": c13, "C14": c14, "C15": c15, "C05": c05, "C12": c12, "C01": c01, "C02": c02, "C03": c03, "C04": c04, "C08": c08, "C10": c10}


# ------------------------------------------------------------------------------------------------ C17 (scheduler machine)
def c17(tier):
    import json
    c = Check("C17", "sched", 17, tier)
    c.wall_budget = wall(tier, 90, 2400)
    c.det_seeds = 64 if tier == "quick" else 400
    c.run_timeout = 300
    c.rule = ("one evaluation = one seeded run of the baton scheduler over hwloc compiled with -fsanitize=thread instrumentation: workload A = "
              "a topology (synthetic string or corpus XML, file or buffer) + a seeded modification history (half of the runs: none) + "
              "hwloc_topology_refresh(), then 2-4 reader tasks x 10-40 consulting calls interleaved by the plan's schedule (PCT with 1-5 "
              "change points | random switch with p in 1/20..1/5000 per instrumented access | switch at wrapped libc calls only); workload B = "
              "2-4 tasks each running init/configure/load (synthetic | XML file | XML buffer | HWLOC_FSROOT snapshot)/modify/export/dup/"
              "destroy histories on their own topologies. Oracles: happens-before race detector (vector clocks; edges = task create/join, "
              "mutex unlock->lock; byte-exact shadow reset at malloc/free) - heap race or static cell written with differing values = "
              "violation, idempotent once-initialisations of static environment caches are listed by symbol in idempotent_static_inits; "
              "per-op result digests equal a single-threaded replay; topology digest unchanged by the reader phase; deadlock detection. "
              "distinct_nontrivial = number of distinct (workload, source(s), interleaving signature) triples, the signature being the hash of "
              "the executed sequence of (task, function in which it was switched out); a run is trivial/duplicate when it repeats such a "
              "triple (e.g. a schedule whose change points fall after the end of the phase). Runs marked selftest=1 in their plan are the "
              "in-batch sensitivity self-test (workload A WITHOUT the refresh: documented as unsafe) and never produce a verdict")
    c.real_components = ["all of hwloc (22 sources of the /repo working tree + the static inline helpers of include/hwloc/helper.h compiled "
                         "into the driver): real code, every load/store/function entry instrumented, asserts on",
                         "libc and libxml2: real but uninstrumented; a call into them is atomic under the baton",
                         "real pthreads (one per task, thread-local errno and uselocale() as in production)"]
    c.stubbed_components = ["thread scheduling: decided by the simulator (exactly one task holds the baton; who runs next is a function of the plan's "
                            "sched line and the deterministic step index), never by the OS",
                            "pthread_mutex_lock/unlock: wrapped (ownership and blocking are modelled by the scheduler; the real call is made once the "
                            "model grants the mutex)",
                            "malloc/calloc/realloc/free/strdup/memcpy/memmove/memset/qsort/getenv: wrapped as pre-emption points and access-log "
                            "entries, then forwarded to libc; the allocator is interposed process-wide so the shadow is reset for libc/libxml2 blocks too",
                            "hwloc's static storage is put back to its load-time image before every run (each run starts like a fresh process)"]
    c.assumptions = ASSUME + [
        "the schedule search is sequentially consistent: weak-memory effects are not explored; the race oracle reasons at C11 level "
        "(two unordered conflicting accesses = race, whatever order they ran in)",
        "accesses made inside uninstrumented libc/libxml2 on hwloc's behalf are not observed, except the wrapped "
        "memcpy/memmove/memset/qsort/strdup whose ranges are logged (snprintf/strcpy/sscanf/read targets are not)",
        "static-cell rule (DESIGN.md C17): a race on static storage whose conflicting writes all store the same value into a cell that only "
        "moves from its initial value to that value is listed, not reported",
        "<= 4 tasks, synthetic sources <= 256 PUs, snapshots are the small ones of tests/hwloc/linux plus three wide ones; "
        "hwloc_topology_dup and hwloc_shmem_topology_write are not in the reader alphabet (the statement does not list them as consulting)",
        "modifications known to trip defects recorded under other properties are avoided in the set-up histories "
        "(cpukinds_register after restrict, memattr values with object initiators, distances grouping)"]
    base_execute = c.execute

    def execute():
        rc = base_execute()
        path = os.path.join(os.path.dirname(os.path.dirname(os.path.abspath(__file__))), "evidence", "C17.json")
        try:
            with open(path) as f:
                ev = json.load(f)
            cov = ev["coverage"]
            cnt = cov.get("counters", {})
        except (OSError, ValueError, KeyError):
            return rc
        runs, found = cnt.get("selftest.runs", 0), cnt.get("selftest.races_found", 0)
        cov["sensitivity_selftest"] = {"what": "workload A without hwloc_topology_refresh() after distances_add + memattr_set_value + restrict "
                                               "(documented as unsafe): the race oracle must report heap races", "runs": runs, "runs_with_heap_race": found}
        cov["idempotent_static_inits"] = {k[len("idempotent_static_init."):]: v for k, v in sorted(cnt.items()) if k.startswith("idempotent_static_init.")}
        cov["distinct_interleavings"] = cov.get("distinct_sets", {}).get("interleaving", {}).get("count", 0)
        with open(path, "w") as f:
            json.dump(ev, f, indent=1, sort_keys=False)
            f.write("\n")
        if cnt.get("shadow_overflow", 0):
            c.log("WARNING: the race detector's shadow overflowed in some runs (%d accesses not recorded)" % cnt["shadow_overflow"])
        if runs == 0:
            c.log("WARNING: no sensitivity self-test run in this batch (too few runs)")
        elif found == 0:
            c.log("SENSITIVITY SELF-TEST FAILED: %d unrefreshed runs, no heap race reported: the race oracle is blind" % runs)
            print("ERROR: C17 sensitivity self-test: %d runs of workload A without refresh produced no race report" % runs)
            return max(rc, 2)
        else:
            c.log("sensitivity self-test: %d/%d unrefreshed runs reported heap races; idempotent static inits: %s" % (found, runs, ", ".join(cov["idempotent_static_inits"]) or "none"))
        return rc

    c.execute = execute
    return c


CHECKS["C17"] = c17
