"""Run budgets. A check explores the fixed index range 0..N-1 of the seed stream derived from VERIF_SEED (run i uses
run_seed(VERIF_SEED, machine, i)), so what a tier explores, and therefore its verdict on a given tree, is a function of
(VERIF_SEED, tier, tree) only - not of machine load. The wall cap only guarantees termination on a slow machine: when it
is hit the check explores a subset of the same index range (evidence: cap_hit=true).
HWSIM_RUNS / HWSIM_WALL override N / the cap (used for experiments and by seeded/run_checks.sh)."""
import os

#        quick N, thorough N
RUNS = {
    "C01": (20000, 240000),
    "C02": (8000, 96000),
    "C03": (30000, 360000),
    "C04": (30000, 360000),
    "C05": (4000, 48000),
    "C06": (4000, 48000),
    "C08": (10000, 120000),
    "C09": (8000, 96000),
    "C10": (30000, 360000),
    "C12": (5000, 60000),
    "C13": (6000, 72000),
    "C14": (5000, 60000),
    "C15": (3500, 42000),
    "C16": (4000, 48000),
    "C17": (6000, 72000),
    "C18": (600, 7200),
    "C19": (5000, 60000),
}
CAP = {"quick": 900.0, "thorough": 5400.0}


def apply(check):
    q, t = RUNS.get(check.prop, (5000, 100000))
    n = q if check.tier == "quick" else t
    if os.environ.get("HWSIM_RUNS"):
        n = int(os.environ["HWSIM_RUNS"])
    check.max_runs = n
    check.wall_budget = float(os.environ["HWSIM_WALL"]) if os.environ.get("HWSIM_WALL") else CAP[check.tier]
    return check
