#!/usr/bin/env python3
"""Writes /verif/MANIFEST.json from the table below (single source of truth for registered checks)."""
import json, os, sys
VERIF = os.path.dirname(os.path.dirname(os.path.abspath(__file__)))
sys.path.insert(0, os.path.join(VERIF, "hwsim"))
import manifest_data as md

ids = [json.loads(l)["id"] for l in open(os.path.join(VERIF, "properties.jsonl"))]
checks = []
for pid in ids:
    if pid in md.CLAIMED:
        c = md.CLAIMED[pid]
        checks.append({
            "property_id": pid,
            "quick_cmd": "./check %s quick" % pid,
            "thorough_cmd": "./check %s thorough" % pid,
            "evidence_file": "/verif/evidence/%s.json" % pid,
            "replay_cmd_template": "./check --replay {path}",
            "engine": "hwsim/" + c["machine"],
            "level_claimed": {"category": c.get("category", "exploration"), "text": c["text"], "design_ref": c["design_ref"]},
            "level_note": c["note"],
            "technique": c["technique"],
        })
na = [{"property_id": pid, "reason": md.NOT_APPLICABLE[pid]} for pid in ids if pid not in md.CLAIMED]
engines = {}
for pid, c in md.CLAIMED.items():
    engines.setdefault(c["machine"], []).append(pid)
m = {
    "version": 1,
    "setup_cmd": "python3 hwsim/build.py",
    "hooks": {
        "guard": "HWLOC_VERIF_SIM",
        "enable": "hwsim/build.py compiles /repo/hwloc/*.c itself with -DHWLOC_VERIF_SIM (no hook is currently needed: every seam is a link-time --wrap, compiler instrumentation, an environment variable or a file on the simulated disk)",
        "baseline_off_cmd": "PATH=$PATH:/root/miniconda/bin make -C /repo check",
        "source_commits": md.HOOK_COMMITS,
        "add_only": True,
    },
    "engines": [{"name": "hwsim/" + k, "path": "/verif/hwsim", "serves_properties": sorted(v), "kind_free_text": md.ENGINE_TEXT.get(k, "")} for k, v in sorted(engines.items())],
    "checks": checks,
    "not_applicable": na,
    "notes": md.NOTES,
}
json.dump(m, open(os.path.join(VERIF, "MANIFEST.json"), "w"), indent=1)
print("MANIFEST.json: %d checks, %d not applicable" % (len(checks), len(na)))
