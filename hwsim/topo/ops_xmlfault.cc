// Stored-document fault injection (C06): the XML a topology (or a diff) was persisted as is damaged between writer and reader.
#include "world.h"
#include <unistd.h>
#include <algorithm>
#include <map>

namespace hwsim {

// ------------------------------------------------------------------------------------------------ corruption of a stored document
struct Fault { std::string kind, what; };   // what: element / attribute touched (for structure-aware kinds)

static std::vector<std::pair<size_t, size_t>> lines_of(const std::string &s) { std::vector<std::pair<size_t, size_t>> v; size_t p = 0; while (p < s.size()) { size_t e = s.find('\n', p); if (e == std::string::npos) e = s.size(); else e++; v.push_back({p, e - p}); p = e; } return v; }
static std::string elem_of(const std::string &line) { size_t lt = line.find('<'); if (lt == std::string::npos) return "?"; size_t e = line.find_first_of(" >/\n", lt + 1); std::string n = line.substr(lt + 1, e == std::string::npos ? std::string::npos : e - lt - 1); if (n.empty() && lt + 1 < line.size() && line[lt + 1] == '/') { e = line.find_first_of(" >\n", lt + 2); n = "/" + line.substr(lt + 2, e == std::string::npos ? std::string::npos : e - lt - 2); } return n; }

static const int NKINDS = 14;
// line choice: uniform over lines, or (half of the time) uniform over the element names present and then over the lines of that element, so that
// rare elements (indexes, u64values, memattr_value, cpukind, info, page_type, userdata, support ...) are damaged as often as <object>
static size_t pick_line(const std::string &doc, const std::vector<std::pair<size_t, size_t>> &ls, Rng &g) {
  if (ls.size() < 2 || g.chance(1, 2)) return (size_t)g.below(ls.size());
  std::map<std::string, std::vector<size_t>> by; for (size_t i = 0; i < ls.size(); i++) by[elem_of(doc.substr(ls[i].first, std::min<size_t>(ls[i].second, 64)))].push_back(i);
  auto it = by.begin(); std::advance(it, (long)g.below(by.size())); return it->second[g.below(it->second.size())];
}
static Fault corrupt(std::string &doc, Rng &g, int kindsel) {
  Fault f; if (doc.empty()) { f.kind = "empty"; return f; }
  size_t n = doc.size(); size_t pos = (size_t)g.below(n);
  switch (kindsel % NKINDS) {
  case 0: f.kind = "truncate"; if (g.chance(1, 4)) pos = (size_t)g.below(std::min<size_t>(n, 400)); if (g.chance(1, 12)) pos = 0; /* nothing reached the disk */ doc.resize(pos); break;                                                        // EOF at an arbitrary byte: torn write
  case 1: f.kind = "flip"; doc[pos] = (char)(doc[pos] ^ (1 << g.below(8))); if (!doc[pos]) doc[pos] = ' '; break;   // flipped stored bit
  case 2: { f.kind = "zero_block"; size_t l = 1 + (size_t)g.below(64); for (size_t i = pos; i < n && i < pos + l; i++) doc[i] = ' '; break; }
  case 3: { f.kind = "dup_block"; size_t l = 1 + (size_t)g.below(200); doc.insert(pos, doc.substr(pos, std::min(l, n - pos))); break; }
  case 4: { f.kind = "swap_blocks"; size_t l = 1 + (size_t)g.below(100), p2 = (size_t)g.below(n); if (pos + l <= n && p2 + l <= n && (pos + l <= p2 || p2 + l <= pos)) for (size_t i = 0; i < l; i++) std::swap(doc[pos + i], doc[p2 + i]); break; }
  case 5: case 6: case 7: {   // attribute value replaced by a boundary / garbage value
    auto ls = lines_of(doc); auto &ln = ls[pick_line(doc, ls, g)]; std::string line = doc.substr(ln.first, ln.second);
    std::vector<size_t> eqs; for (size_t i = 0; i + 1 < line.size(); i++) if (line[i] == '=' && line[i + 1] == '"') eqs.push_back(i);
    if (eqs.empty()) { f.kind = "attr"; f.what = "none"; break; }
    size_t eq = eqs[g.below(eqs.size())]; size_t ns = line.find_last_of(" <", eq); std::string an = line.substr(ns + 1, eq - ns - 1); size_t ve = line.find('"', eq + 2); if (ve == std::string::npos) { f.kind = "attr"; f.what = "none"; break; }
    static const char *vals[] = {"", "0", "-1", "4294967295", "4294967296", "18446744073709551615", "99999999999999999999999", "0x", "0xffffffff,0xffffffff,0xffffffff", "0x00000001", "0xf...f", "abc", "1e400", "2", "NaN", "&amp;", "&bogus;", "\t", "255", "65536", "Machine", "PU", "Group", "NUMANode", "Misc", "Bridge", "L9Cache", "0-", "1000000", "Capacity", "Locality", "Bandwidth", "Latency", "1", "3", "7", "L2Cache", "MemCache", "OSDevice", "PCIDevice", "18446744073709551000"};
    std::string nv = vals[g.below(sizeof vals / sizeof *vals)]; if (g.chance(1, 6)) { nv = line.substr(eq + 2, ve - eq - 2); if (!nv.empty()) nv[g.below(nv.size())] = (char)('0' + g.below(10)); }
    // one time in five: the value the same attribute has somewhere else in the document (two sectors of the file exchanged: a NUMA node with another node's
    // nodeset, an object with another object's gp_index, depth, cpuset ...) - values that pass every syntactic test
    if (g.chance(1, 5)) { std::vector<std::string> others; std::string key = " " + an + "=\""; for (size_t q = doc.find(key); q != std::string::npos && others.size() < 64; q = doc.find(key, q + 1)) { size_t b = q + key.size(), e = doc.find('"', b); if (e != std::string::npos) others.push_back(doc.substr(b, e - b)); } if (!others.empty()) nv = others[g.below(others.size())]; }
    doc.replace(ln.first + eq + 2, ve - eq - 2, nv); f.kind = "attr"; f.what = elem_of(line) + "." + an; break; }
  case 8: { auto ls = lines_of(doc); auto &ln = ls[pick_line(doc, ls, g)]; f.kind = "drop_line"; f.what = elem_of(doc.substr(ln.first, ln.second)); doc.erase(ln.first, ln.second); break; }
  case 9: { auto ls = lines_of(doc); auto &ln = ls[pick_line(doc, ls, g)]; std::string line = doc.substr(ln.first, ln.second); f.kind = "dup_line"; f.what = elem_of(line); doc.insert(ln.first, line); break; }
  case 10: { auto ls = lines_of(doc); auto &a = ls[pick_line(doc, ls, g)], &b = ls[pick_line(doc, ls, g)]; if (a.first == b.first) { f.kind = "move_line"; f.what = "same"; break; } std::string line = doc.substr(a.first, a.second); f.kind = "move_line"; f.what = elem_of(line); if (a.first < b.first) { doc.insert(b.first, line); doc.erase(a.first, a.second); } else { doc.erase(a.first, a.second); doc.insert(b.first, line); } break; }
  case 11: { size_t v = doc.find("version=\""); f.kind = "version"; if (v != std::string::npos && v < 400) { size_t e = doc.find('"', v + 9); static const char *vs[] = {"1.0", "2.0", "2.1", "3.0", "3.1", "4.0", "0.9", "", "x", "2", "99.99"}; if (e != std::string::npos) doc.replace(v + 9, e - v - 9, vs[g.below(11)]); } break; }
  case 12: case 13: {   // an attribute given twice: a second occurrence with another value is appended to the element's attribute list
    auto ls = lines_of(doc); auto &ln = ls[pick_line(doc, ls, g)]; std::string line = doc.substr(ln.first, ln.second); f.kind = "dup_attr"; f.what = "none";
    std::vector<size_t> eqs; for (size_t i = 0; i + 1 < line.size(); i++) if (line[i] == '=' && line[i + 1] == '"') eqs.push_back(i);
    size_t close = line.find("/>"); if (close == std::string::npos) close = line.rfind('>'); if (eqs.empty() || close == std::string::npos || line.compare(0, 2, "<?") == 0 || line.find("<!") != std::string::npos) break;
    size_t eq = eqs[g.below(eqs.size())]; size_t ns = line.find_last_of(" <", eq); std::string an = line.substr(ns + 1, eq - ns - 1);
    // the other value: the same attribute somewhere else in the document, or a boundary value
    std::string nv; std::vector<std::string> others; std::string key = " " + an + "=\""; for (size_t q = doc.find(key); q != std::string::npos && others.size() < 64; q = doc.find(key, q + 1)) { size_t b = q + key.size(), e = doc.find('"', b); if (e != std::string::npos) others.push_back(doc.substr(b, e - b)); }
    static const char *vals2[] = {"", "0", "-1", "NUMANode", "PU", "Machine", "Group", "L2Cache", "MemCache", "Misc", "Bridge", "PCIDevice", "OSDevice", "0x00000001", "0xf...f", "18446744073709551615", "2", "abc"};
    nv = (!others.empty() && g.chance(1, 2)) ? others[g.below(others.size())] : vals2[g.below(sizeof vals2 / sizeof *vals2)];
    doc.insert(ln.first + close, " " + an + "=\"" + nv + "\""); f.what = elem_of(line) + "." + an; break; }
  }
  return f;
}

// ------------------------------------------------------------------------------------------------ read-only battery on a loaded (possibly odd) topology
static void printers(hwloc_topology_t t, const Dump &d) {
  char buf[600];
  for (uint64_t gp : d.order) { hwloc_obj_t o = d.objs.at(gp).ptr;
    for (unsigned long fl : {0UL, 1UL, 2UL, 4UL, 16UL, 18UL, 21UL}) { hwloc_obj_type_snprintf(buf, sizeof buf, o, fl); hwloc_obj_type_snprintf(buf, 5, o, fl); hwloc_obj_type_snprintf(nullptr, 0, o, fl); hwloc_obj_attr_snprintf(buf, sizeof buf, o, ", ", fl); hwloc_obj_attr_snprintf(buf, 3, o, "#", fl); hwloc_obj_attr_snprintf(nullptr, 0, o, " ", fl); } }
  for (unsigned long fl = 0; fl < 16; fl++) { char sb[2048]; hwloc_topology_export_synthetic(t, sb, sizeof sb, fl); hwloc_topology_export_synthetic(t, sb, 8, fl); }
}

// `tag` names what the topology was loaded from (it ends the WF class), `what` starts the detail text; also used by the snapshot ops (C18)
void readonly_battery(World &w, hwloc_topology_t t, const char *own, const std::string &tag, const char *what, uint64_t sel, Dump *out) {
  Run &r = *w.run;
  int slot = w.free_slot();
  Dump d; take_dump(t, d, DUMP_FULL);   // distances / memattrs / cpukinds queries included
  std::string e = wf_check(t, d);
  if (!e.empty()) { std::string clause = e.substr(0, e.find(": ")); viol(w, own, clause + "." + tag, "%s (%s): %s", what, tag.c_str(), e.c_str()); }
  if (out) *out = d;
  printers(t, d);
  { char *xb = nullptr; int xl = 0; if (hwloc_topology_export_xmlbuffer(t, &xb, &xl, 0) == 0 && xb) hwloc_free_xmlbuffer(t, xb); if (hwloc_topology_export_xmlbuffer(t, &xb, &xl, HWLOC_TOPOLOGY_EXPORT_XML_FLAG_V2) == 0 && xb) hwloc_free_xmlbuffer(t, xb); }
  { hwloc_topology_t c = nullptr; if (hwloc_topology_dup(&c, t) == 0 && c) hwloc_topology_destroy(c); }
  if (slot >= 0) { Replica &R = w.r[slot]; R = Replica(); R.t = t; R.last = d; R.last_text = d.text(); R.flags = hwloc_topology_get_flags(t);
    struct Unslot { Replica &R; Run &r; ~Unslot() { if (!r.violated && !r.cut) R = Replica(); } } us{R, r};
    battery(w, slot, sel, 6); }
}
static void readonly_battery(World &w, hwloc_topology_t t, const char *own, const Fault &f, uint64_t sel) {
  readonly_battery(w, t, own, f.kind + (f.what.empty() ? "" : ":" + f.what), "a damaged document loaded successfully into a topology that is not well formed", sel, nullptr);
  w.run->count("probe.xmlfault_loaded_ok_battery");
}

bool ops_xmlfault(World &w, const Op &o) {
  Run &r = *w.run; const char *own = "C06";
  if (o.kind == "xml_fault") {
    int si = w.pick(o.u("r")); if (si < 0) return true; Replica &S = w.r[si];
    // the stored document: this replica's own export (v3 / v2) or a corpus file
    std::string doc; int src = (int)(o.u("src") % 4); std::string srcname;
    bool withud = src <= 1 && ((o.u("fs") >> 25) & 1);   // half of the exported documents carry <userdata> records and are loaded with an import callback installed
    if (withud) { doc = export_with_userdata(w, S, src == 1, o.u("fs") >> 26); srcname = src ? "export-v2+userdata" : "export-v3+userdata"; if (!doc.empty()) r.count("probe.xmlfault_document_with_userdata"); }
    if (src <= 1 && doc.empty()) { withud = false; char *xb = nullptr; int xl = 0; if (hwloc_topology_export_xmlbuffer(S.t, &xb, &xl, src == 1 ? HWLOC_TOPOLOGY_EXPORT_XML_FLAG_V2 : 0) == 0 && xb) { doc.assign(xb, xl > 0 ? (size_t)xl - 1 : 0); hwloc_free_xmlbuffer(S.t, xb); } srcname = src ? "export-v2" : "export-v3"; }
    else if (src > 1) { std::vector<std::string> c = corpus_xml(); if (c.empty()) return true; srcname = c[o.u("file") % c.size()]; std::string path = repo_path() + "/tests/hwloc/xml/" + srcname; FILE *fp = fopen(path.c_str(), "rb"); if (fp) { char tmp[65536]; size_t n; while ((n = fread(tmp, 1, sizeof tmp, fp)) > 0) doc.append(tmp, n); fclose(fp); } }
    if (doc.empty()) { r.ev("xml_fault: no document"); return true; }
    const std::string orig = doc;
    Rng g(o.u("fs")); int nf = 1 + (int)(o.u("nf") % 3); Fault last; std::string desc;
    for (int i = 0; i < nf; i++) { Fault f = corrupt(doc, g, (int)g.below(NKINDS)); r.count("fault.xml_" + f.kind); desc += f.kind + (f.what.empty() ? "" : ":" + f.what) + " "; if (i == 0 || !f.what.empty()) last = f; }
    if (nf > 1) { last.kind = "multi:" + last.kind; }
    bool tofile = o.u("via") & 1; int szmode = (int)(o.u("sz") % 4);
    hwloc_topology_t t = nullptr; hwloc_topology_init(&t);
    if (o.u("filt") & 1) hwloc_topology_set_all_types_filter(t, HWLOC_TYPE_FILTER_KEEP_ALL); if (o.u("filt") & 2) hwloc_topology_set_io_types_filter(t, HWLOC_TYPE_FILTER_KEEP_IMPORTANT);
    hwloc_topology_set_flags(t, (o.u("filt") & 4) ? HWLOC_TOPOLOGY_FLAG_INCLUDE_DISALLOWED : 0);
    if (withud || ((o.u("fs") >> 27) & 3) == 0) install_reading_import_cb(t);
    std::string path; int rc1; char *heap = nullptr;
    if (tofile) { path = std::string(scratch_dir()) + "/fault." + std::to_string(w.next_token++) + ".xml"; FILE *fp = fopen(path.c_str(), "wb"); if (fp) { fwrite(doc.data(), 1, doc.size(), fp); fclose(fp); } rc1 = hwloc_topology_set_xml(t, path.c_str()); }
    else { // exact-size heap copies: size with the final NUL, size shorter than the text, missing final NUL inside the allocation
      size_t len = doc.size(); int given;
      if (szmode == 0) { heap = (char *)malloc(len + 1); memcpy(heap, doc.data(), len); heap[len] = 0; given = (int)len + 1; }
      else if (szmode == 1) { heap = (char *)malloc(len + 1); memcpy(heap, doc.data(), len); heap[len] = 0; given = (int)(len ? g.below(len) + 1 : 1); }
      else if (szmode == 2) { heap = (char *)malloc(len ? len : 1); memcpy(heap, doc.data(), len); given = (int)len; }   // no terminating NUL inside [buffer, buffer+size)
      else { heap = (char *)malloc(len + 1); memcpy(heap, doc.data(), len); heap[len] = 0; given = (int)len; }             // size without the NUL
      rc1 = hwloc_topology_set_xmlbuffer(t, heap, given); }
    int rc2 = rc1 == 0 ? hwloc_topology_load(t) : -1;
    if (heap) free(heap);   // the buffer may be freed after load (documented)
    r.ev("xml_fault r%d src=%s faults=[%s] via=%s sz=%d -> set %d load %d", si, srcname.c_str(), desc.c_str(), tofile ? "file" : "buffer", szmode, rc1, rc2);
    if ((rc1 != 0 && rc1 != -1) || (rc2 != 0 && rc2 != -1)) viol0(w, own, "xmlfault.return_value", "set returned %d, load returned %d", rc1, rc2);
    if (rc2 == 0) { r.count("probe.xmlfault_load_succeeded"); readonly_battery(w, t, own, last, o.u("fs")); hwloc_topology_destroy(t); }
    else {
      r.count("probe.xmlfault_load_failed_cleanly");
      // the failed topology can be destroyed, or configured and loaded again
      if (o.u("again") & 1) {
        // reload on the same handle: a synthetic description, the undamaged document, or an intact Linux snapshot (a back-end with several discovery
        // phases, unlike XML and synthetic); the failed attempt must leave no trace: the result equals what a fresh handle loads from the same source
        int variant = (int)((o.u("fs") >> 17) & 3); size_t nsnap = snapshot_count(); long si = nsnap ? (long)((o.u("fs") >> 20) % nsnap) : -1;
        if (variant == 2 && (si < 0 || strcmp(snapshot_kind((size_t)si), "linux"))) variant = 0;
        auto configure = [&](hwloc_topology_t h) { if (o.u("filt") & 1) hwloc_topology_set_all_types_filter(h, HWLOC_TYPE_FILTER_KEEP_ALL); if (o.u("filt") & 2) hwloc_topology_set_io_types_filter(h, HWLOC_TYPE_FILTER_KEEP_IMPORTANT); hwloc_topology_set_flags(h, (o.u("filt") & 4) ? HWLOC_TOPOLOGY_FLAG_INCLUDE_DISALLOWED : 0); };
        // half of the synthetic / XML reloads are reconfigured with IS_THISSYSTEM: the this-system state (and with it the binding hooks and support bits the
        // topology advertises) is recomputed by every load and must not remember the failed attempt (no binding call is ever made here)
        bool ts = variant != 2 && ((o.u("fs") >> 23) & 1);
        auto load_from = [&](hwloc_topology_t h, int *rap) { int ra = 0, rb;
          if (ts) hwloc_topology_set_flags(h, ((o.u("filt") & 4) ? HWLOC_TOPOLOGY_FLAG_INCLUDE_DISALLOWED : 0) | HWLOC_TOPOLOGY_FLAG_IS_THISSYSTEM);
          if (variant == 1) ra = hwloc_topology_set_xmlbuffer(h, orig.c_str(), (int)orig.size() + 1); else if (variant != 2) ra = hwloc_topology_set_synthetic(h, "pack:2 numa:1 core:2 pu:2");
          if (ra) rb = -1; else if (variant == 2) { std::string desc; rb = snapshot_load(h, (size_t)si, 0, 0, &desc); } else rb = hwloc_topology_load(h);
          *rap = ra; return rb; };
        int ra = 0; int rb = load_from(t, &ra);
        if (ts) r.count("probe.xmlfault_reload_as_thissystem"); r.count(variant == 1 ? "probe.xmlfault_reload_undamaged_document" : variant == 2 ? "probe.xmlfault_reload_snapshot" : "probe.xmlfault_reload_synthetic");
        r.ev("xml_fault reload variant=%d -> set %d load %d", variant, ra, rb);
        if (ra || rb) { hwloc_topology_destroy(t); viol0(w, own, "xmlfault.reload_after_failure", "after a failed XML load the same topology could not be configured and loaded again (variant %d: set %d load %d)", variant, ra, rb); }
        Dump d; take_dump(t, d, DUMP_FULL); std::string e = wf_check(t, d); if (!e.empty()) { hwloc_topology_destroy(t); viol(w, own, e.substr(0, e.find(": ")), "topology loaded after a failed XML load: %s", e.c_str()); }
        hwloc_topology_t fresh = nullptr; hwloc_topology_init(&fresh); configure(fresh); int fa = 0; int fb = load_from(fresh, &fa);
        if (fa == 0 && fb == 0) { Dump df; take_dump(fresh, df, DUMP_FULL); std::string a = d.text(), b = df.text();
          if (a != b) { size_t pa = 0, pb = 0; std::string la, lb; while (pa < a.size() || pb < b.size()) { size_t ea = a.find('\n', pa), eb = b.find('\n', pb); if (ea == std::string::npos) ea = a.size(); if (eb == std::string::npos) eb = b.size(); la = a.substr(pa, ea - pa); lb = b.substr(pb, eb - pb); if (la != lb) break; pa = ea + 1; pb = eb + 1; }
            hwloc_topology_destroy(fresh); hwloc_topology_destroy(t); viol0(w, own, "xmlfault.reload_after_failure_differs", "the topology loaded on a handle whose previous XML load failed differs from what a fresh handle loads from the same source: '%s' vs '%s'", la.substr(0, 400).c_str(), lb.substr(0, 400).c_str()); }
          r.count("probe.xmlfault_reload_equals_fresh_handle"); }
        if (fresh) hwloc_topology_destroy(fresh);
      }
      hwloc_topology_destroy(t);
    }
    if (!path.empty()) unlink(path.c_str());
    return true;
  }
  if (o.kind == "diffxml_fault") {
    int si = w.pick(o.u("r")); if (si < 0) return true; Replica &S = w.r[si];
    // a real diff XML: rename + info edits between two private copies
    hwloc_topology_t A = nullptr, B = nullptr; if (hwloc_topology_dup(&A, S.t) < 0) return true; if (hwloc_topology_dup(&B, A) < 0) { hwloc_topology_destroy(A); return true; }
    hwloc_obj_t ra = hwloc_get_root_obj(A), rb = hwloc_get_root_obj(B); free(ra->name); ra->name = strdup("a"); free(rb->name); rb->name = strdup("b&<"); hwloc_obj_add_info(ra, "K", "1"); hwloc_obj_add_info(rb, "K", "2");
    hwloc_topology_diff_t d = nullptr; std::string doc; if (hwloc_topology_diff_build(A, B, 0, &d) == 0 && d) { char *xb = nullptr; int xl = 0; if (hwloc_topology_diff_export_xmlbuffer(d, "ref", &xb, &xl) == 0 && xb) { doc.assign(xb, xl > 0 ? (size_t)xl - 1 : 0); free(xb); } }
    if (d) hwloc_topology_diff_destroy(d); hwloc_topology_destroy(B);
    if (!doc.empty()) { Rng g(o.u("fs")); int nf = 1 + (int)(o.u("nf") % 2); std::string desc; for (int i = 0; i < nf; i++) { Fault f = corrupt(doc, g, (int)g.below(NKINDS)); r.count("fault.diffxml_" + f.kind); desc += f.kind + " "; }
      size_t len = doc.size(); char *heap = (char *)malloc(len + 1); memcpy(heap, doc.data(), len); heap[len] = 0; hwloc_topology_diff_t d2 = nullptr; char *ref = nullptr;
      int rc = hwloc_topology_diff_load_xmlbuffer(heap, (int)len + 1, &d2, &ref); free(heap);
      r.ev("diffxml_fault r%d faults=[%s] -> %d", si, desc.c_str(), rc);
      if (rc != 0 && rc != -1) viol0(w, own, "xmlfault.return_value", "diff_load_xmlbuffer returned %d", rc);
      if (rc == 0) { r.count("probe.diffxml_load_succeeded"); if (d2) hwloc_topology_diff_destroy(d2); free(ref); } else r.count("probe.diffxml_load_failed_cleanly"); }
    hwloc_topology_destroy(A);
    return true;
  }
  return false;
}

}  // namespace hwsim
