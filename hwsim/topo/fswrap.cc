// readdir seam of the simulated disk (DESIGN.md 3.5): directory ORDER is decided by the plan, never by the file system.
// Linked with -Wl,--wrap=readdir,--wrap=closedir,--wrap=rewinddir. On the first readdir() of a DIR* the real directory is
// drained, the entries are copied and sorted by name (or, while g_rdperm != 0, put in a permutation seeded by g_rdperm and the
// directory's content) and then served from the buffer. Every other property of readdir (entries, d_type, d_ino, NULL at the
// end, errno untouched at the end) is passed through, so the wrapper is transparent for every user in the process.
#include "../core/hwsim.h"
#include <dirent.h>
#include <errno.h>
#include <algorithm>
#include <map>

extern "C" {
struct dirent *__real_readdir(DIR *d);
int __real_closedir(DIR *d);
void __real_rewinddir(DIR *d);
}

namespace hwsim {
uint64_t g_rdperm = 0;            // 0: sorted by name; else seed of the permutation applied to the sorted list
uint64_t g_rd_dirs_served = 0;    // directories drained since process start (probe)
uint64_t g_rd_dirs_permuted = 0;  // of which served in a permuted order (>= 2 entries and not the identity)
}

namespace {
struct DirBuf { std::vector<struct dirent> ent; size_t pos = 0; };
std::map<DIR *, DirBuf *> &table() { static std::map<DIR *, DirBuf *> t; return t; }

DirBuf *drain(DIR *d) {
  DirBuf *b = new DirBuf();
  int saved = errno;
  while (struct dirent *e = __real_readdir(d)) {
    struct dirent c; memset(&c, 0, sizeof c);
    size_t n = e->d_reclen; if (n > sizeof c || n == 0) n = sizeof c;
    memcpy(&c, e, n); c.d_name[sizeof c.d_name - 1] = 0;
    b->ent.push_back(c);
  }
  errno = saved;   // end of directory: errno unchanged, as readdir(3) promises
  std::sort(b->ent.begin(), b->ent.end(), [](const struct dirent &x, const struct dirent &y) { return strcmp(x.d_name, y.d_name) < 0; });
  // d_off is a file-system cookie (inode/hash order on tmpfs): not meaningful for a buffered stream, and nobody may see it
  for (size_t i = 0; i < b->ent.size(); i++) b->ent[i].d_off = (off_t)(i + 1);
  hwsim::g_rd_dirs_served++;
  if (hwsim::g_rdperm && b->ent.size() >= 2) {
    hwsim::Fnv f; for (auto &e : b->ent) f.str(e.d_name);
    hwsim::Rng g(hwsim::mix2(hwsim::g_rdperm, f.h));
    bool moved = false;
    for (size_t i = b->ent.size() - 1; i > 0; i--) { size_t j = (size_t)g.below(i + 1); if (j != i) { std::swap(b->ent[i], b->ent[j]); moved = true; } }
    if (moved) hwsim::g_rd_dirs_permuted++;
  }
  return b;
}
}  // namespace

extern "C" {
struct dirent *__wrap_readdir(DIR *d) {
  if (!d) return __real_readdir(d);
  auto &t = table(); auto it = t.find(d);
  if (it == t.end()) it = t.insert({d, drain(d)}).first;
  DirBuf *b = it->second;
  if (b->pos >= b->ent.size()) return nullptr;
  return &b->ent[b->pos++];
}
int __wrap_closedir(DIR *d) {
  auto &t = table(); auto it = t.find(d);
  if (it != t.end()) { delete it->second; t.erase(it); }
  return __real_closedir(d);
}
void __wrap_rewinddir(DIR *d) {
  auto &t = table(); auto it = t.find(d);
  if (it != t.end()) { delete it->second; t.erase(it); }   // drained again (in the order of the moment) at the next readdir
  __real_rewinddir(d);
}
}
