// Canonical dump of everything the public API lets a user observe on a topology.
#pragma once
#include "../core/hwsim.h"
#include "bset.h"
#include <hwloc.h>
#include <hwloc/shmem.h>
#include <map>

namespace hwsim {

typedef std::vector<std::pair<std::string, std::string>> Infos;

struct ObjRec {
  uint64_t gp = 0; int type = 0; std::string subtype, name; bool has_subtype = false, has_name = false;
  unsigned os_index = 0; int depth = 0; unsigned logical_index = 0, sibling_rank = 0;
  uint64_t parent = ~0ULL;
  std::vector<uint64_t> kids[4];             // normal, memory, io, misc (gp_index, list order)
  bool hassets = false; BSet cs, ccs, ns, cns;
  std::string attr;                          // type-specific attributes, harness rendering
  Infos infos;
  uint64_t total_memory = 0, local_memory = 0; int symmetric = 0;
  uint64_t userdata = 0;
  hwloc_obj_t ptr = nullptr;                 // never printed
  int kind() const;                          // 0 normal 1 memory 2 io 3 misc
};

struct DistRec { std::string name; bool has_name = false; unsigned long kind = 0; std::vector<uint64_t> objs; std::vector<int> types; std::vector<uint64_t> values; std::string text() const; };
struct MemInit { std::string loc; uint64_t value = 0; bool is_cs = false; BSet cs; };
struct MemTarget { uint64_t gp = 0; bool has_value = false; uint64_t value = 0; std::vector<MemInit> inits; };
struct MemattrRec { unsigned id = 0; std::string name; unsigned long flags = 0; std::vector<MemTarget> targets; std::string text() const; };
struct KindRec { BSet cs; int eff = 0; Infos infos; std::string text() const; };

enum DumpMode { DUMP_FULL = 0, DUMP_TREE = 1 };   // TREE: no distances/memattrs/cpukinds queries (they refresh lazy caches)

struct Dump {
  bool ok = false; std::string broken;          // structural problem that stopped the walk
  std::vector<uint64_t> order;                  // pre-order (normal, memory, io, misc children)
  std::map<uint64_t, ObjRec> objs;
  uint64_t root = ~0ULL;
  int depth = 0;
  std::vector<std::pair<int, std::vector<uint64_t>>> levels;   // (depth, gps in logical order), normal then special
  std::map<int, int> depth_type;
  unsigned long flags = 0; int filters[HWLOC_OBJ_TYPE_MAX]; int thissystem = 0; std::string support;
  BSet tcs, tccs, tns, tcns, acs, ans;          // topology / complete / allowed sets
  Infos tinfos;
  std::vector<DistRec> dists; std::vector<MemattrRec> memattrs; std::vector<KindRec> kinds;
  bool have_aux = false;                        // dists/memattrs/kinds were collected

  const ObjRec *find(uint64_t gp) const { auto it = objs.find(gp); return it == objs.end() ? nullptr : &it->second; }
  std::string obj_line(const ObjRec &o, bool xmlproj) const;
  // full = everything; xmlproj = projection on what XML export/import promises to preserve (C05 statement)
  std::string text(bool xmlproj = false, bool with_userdata = true) const;
  std::string aux_text(bool xmlproj = false) const;
  // same content with every gp_index replaced by the object's pre-order rank: lock-step comparison of replicas whose
  // hidden gp counters legitimately differ (the value of future gp_index is not promised, only uniqueness)
  std::string text_norm(bool xmlproj) const;
  uint64_t hash() const { return hash_str(text()); }
};

std::string render_attr(hwloc_obj_t o);
Infos read_infos(const struct hwloc_infos_s *is);
std::string infos_text(const Infos &i);
void take_dump(hwloc_topology_t t, Dump &d, DumpMode mode = DUMP_FULL);

// Independent well-formedness checker (C01 clauses). Returns "" or "clause-id: detail".
std::string wf_check(hwloc_topology_t t, const Dump &d);
// hwloc's own checker under the assertion guard. Returns "" or "function:expr".
std::string hwloc_check_guarded(hwloc_topology_t t);

static inline bool type_is_normal(int t) { return t <= HWLOC_OBJ_GROUP; }
static inline bool type_is_memory(int t) { return t == HWLOC_OBJ_NUMANODE || t == HWLOC_OBJ_MEMCACHE; }
static inline bool type_is_io(int t) { return t == HWLOC_OBJ_BRIDGE || t == HWLOC_OBJ_PCI_DEVICE || t == HWLOC_OBJ_OS_DEVICE; }

}  // namespace hwsim
