// The replica world shared by all topology-level ops and oracles.
#pragma once
#include "dump.h"
#include <hwloc/distances.h>
#include <hwloc/memattrs.h>
#include <hwloc/cpukinds.h>
#include <hwloc/diff.h>
#include <hwloc/export.h>
#include <errno.h>

namespace hwsim {

const int MAXREP = 4;

// reference list entry for user-added distances (C13)
struct DistModel { std::string name; bool has_name = false; unsigned long kind = 0; std::vector<uint64_t> objs; std::vector<int> types; std::vector<uint64_t> values; };
// reference table for memory attributes (C14): attr id -> target gp -> initiator key -> value
struct MemInitModel { bool is_obj = false; uint64_t objgp = 0; BSet cs; uint64_t value = 0; };
struct MemAttrModel { std::string name; unsigned long flags = 0; std::map<uint64_t, std::vector<MemInitModel>> tg; std::map<uint64_t, uint64_t> noinit; };
// cpukinds registrations (C15)
struct KindReg { BSet cs; int forced = -1; Infos infos; };

struct Replica {
  hwloc_topology_t t = nullptr;
  bool live() const { return t != nullptr; }
  bool adopted = false;
  int twin = -1;                 // replica supposed to be equivalent (dup / xml / shm); -1 if none or diverged
  int twin_kind = 0;             // 1 dup, 2 xml, 3 shm
  Dump last;                     // dump after the last op on this replica
  std::string last_text;         // last.text() (full)
  unsigned long flags = 0;
  std::map<uint64_t, uint64_t> userdata;    // gp -> token set by the harness
  // shadow tables
  std::vector<DistModel> user_dists; bool dists_tracked = true;
  std::map<unsigned, MemAttrModel> memattrs; bool mem_tracked = true;
  std::vector<KindReg> kind_regs; BSet kind_initial_union; bool kinds_tracked = true;
  // shm
  void *shm_addr = nullptr; size_t shm_len = 0; int shm_fd = -1; std::string shm_file; uint64_t shm_off = 0;
  bool aux_stale = false, aux_stale_numa = false;        // a restrict succeeded and nothing has looked at distances / memattrs / kinds since (reach probes only)
  int loaded_from = 0;           // 0 synthetic, 1 xml corpus, 2 xml restart, 3 dup, 4 shm, 5 bundled snapshot
};

struct Cfg {
  std::string prop;
  bool lazy = false;             // per-op dumps are tree-only (lazy caches stay stale between ops)
  int battery_every = 0;
  bool libxml_import = false, libxml_export = false;   // process class
  bool ud_markup = false;                               // plain userdata may contain < and & (known finding with nolibxml export)
  bool is(const char *p) const { return prop == p; }
};

struct World {
  Replica r[MAXREP]; Cfg cfg; Run *run = nullptr; uint64_t next_token = 1000;
  int cur_ri = -1; bool in_wf_probe = false;   // replica the current op runs on (exec_on); re-entrancy guard of the pre-cut WF look
  std::map<std::string, std::string> hint;   // oracle id prefix -> class suffix naming the specific history that an op just produced (known findings)
  int nlive() const { int n = 0; for (auto &x : r) n += x.live(); return n; }
  int pick(uint64_t sel) const { int n = nlive(); if (!n) return -1; int k = (int)(sel % n); for (int i = 0; i < MAXREP; i++) if (r[i].live() && !k--) return i; return -1; }
  int free_slot() const { for (int i = 0; i < MAXREP; i++) if (!r[i].live()) return i; return -1; }
};

// attribution: oracle `oid` belongs to property `owner`; violation if it is the run's primary property, else cut
[[noreturn]] void viol(World &w, const char *owner, const std::string &oid, const char *fmt, ...) __attribute__((format(printf, 4, 5)));
[[noreturn]] void viol0(World &w, const char *owner, const std::string &oid, const char *fmt, ...) __attribute__((format(printf, 4, 5)));

// selection helpers (pure functions of the replica's last dump and the selector)
hwloc_obj_t sel_obj(const Replica &R, uint64_t sel, int kindmask = 15);       // kindmask bit k: kind k allowed
hwloc_obj_t sel_type(const Replica &R, uint64_t sel, int type);
BSet sel_cpuset(const Replica &R, int mode, uint64_t bits);
BSet sel_nodeset(const Replica &R, int mode, uint64_t bits);
std::string sel_string(uint64_t sel, int maxlen = 12);    // strings over HWLOC_XML_CHAR_VALID incl. escapable chars

// refresh R.last / last_text; runs WF with the given owner property ("" = no WF)
void observe(World &w, int ri, const char *wf_owner, bool force_full = false);

// sources
std::string gen_synthetic(Rng &g);
std::vector<std::string> corpus_xml();
std::string repo_path();
bool load_source(World &w, int ri, const Plan &p, std::string &why);

// op groups; each returns true if it handled the op
bool ops_core(World &w, const Op &o);
bool ops_aux(World &w, const Op &o);
bool ops_repl(World &w, const Op &o);
bool ops_diff(World &w, const Op &o);
bool ops_shm(World &w, const Op &o);
bool ops_xmlfault(World &w, const Op &o);
bool ops_snapshot(World &w, const Op &o);   // snap_load / snap_enum (C18)
const char *snapshot_kind(size_t i);         // "linux" | "x86" | "x86+linux"
int snapshot_load(hwloc_topology_t t, size_t index, unsigned comp, unsigned env, std::string *desc);   // load an intact bundled snapshot into a configured topology ("src snap")
long snapshot_index(const char *name);       // index of the bundled snapshot with that name, -1 if absent
size_t snapshot_count();                    // bundled snapshots (sorted list; a function of the repository content only)
// WF + printers + XML/synthetic exports + dup + helper battery on a temporary topology; WF class = <clause>.<tag>@<op>; *out = the dump taken
void readonly_battery(World &w, hwloc_topology_t t, const char *own, const std::string &tag, const char *what, uint64_t sel, Dump *out = nullptr);
void shm_after_destroy(World &w, void *addr, size_t len);
void battery(World &w, int ri, uint64_t sel, int nqueries);
void destroy_replica(World &w, int ri);

// oracles used across groups
void oracle_restrict(World &w, int ri, const Dump &B, const Dump &A, const BSet &S, unsigned long fl, int rc, int err);
void models_after_restrict(World &w, int ri, const Dump &B, const Dump &A);
void check_models(World &w, int ri, const char *ctx);
void models_init(World &w, int ri);
void derive_models(World &w, int si, int di, bool fresh);
std::string export_with_userdata(World &w, Replica &R, bool v2, uint64_t sel);   // buffer export with <userdata> records on a seeded handful of objects ("" on failure)
void install_reading_import_cb(hwloc_topology_t t);                             // userdata import callback that reads every delivered byte
void own_section_first(World &w, const Dump &ds, const Dump &dd, const char *how);   // C13/C14/C15 runs: their own section of the dump judged before a derivation oracle of C12/C05/C19 cuts the run

}  // namespace hwsim
