// Snapshot ops (C18): discovery from the bundled Linux sysfs/procfs snapshots and x86 CPUID dumps on the simulated disk, with
// path removal as the fault (DESIGN.md 3.5, 4 "C18").
//
//   snap_load   one (snapshot, component selection, filters, flags, removal set, readdir order) evaluation with the sub-oracles
//               (a) 0 / clean -1 + reload of the untouched snapshot, (b) WF + read-only battery, (c) load determinism,
//               (d) INCLUDE_DISALLOWED relation, (e) XML restart equality
//   snap_enum   exhaustive part: every single / pairwise removal under sys/devices/system of a small snapshot, a chunk per op
//
// The snapshot trees are private to the worker process (extracted lazily under scratch_dir()/snap), removal is a rename() into
// scratch_dir()/stash that is always undone, directory order comes from the readdir seam (fswrap.cc).
#include "world.h"
#include <dirent.h>
#include <sys/stat.h>
#include <unistd.h>
#include <algorithm>

namespace hwsim {

extern uint64_t g_rdperm, g_rd_dirs_permuted;

namespace {

typedef std::vector<std::pair<std::string, std::string>> EnvList;

struct Snap {
  std::string name, kind, tarball;          // kind: "linux" | "x86" | "x86+linux"
  std::vector<EnvList> envs;                // [0] = none; then the tuning variables the test suite loads this snapshot with
  // process-local state
  bool extracted = false, listed = false;
  std::string dir, inner;                   // private tree, the (single) directory found inside the tarball
  std::string master, minner, innername;    // the shared read-only master copy (loads without removal read it directly)
  bool use_private = true;                  // which of the two the next loads read
  std::vector<std::string> removable;       // relative to `inner`, sorted
  std::vector<uint32_t> sysidx;             // indices of removable paths under sys/devices/system
  uint64_t entries = 0, last_use = 0;
  bool has_fsroot() const { return kind != "x86"; }
  bool has_cpuid() const { return kind != "linux"; }
  const std::string &base() const { return use_private ? inner : minner; }
  std::string fsroot() const { return kind == "linux" ? base() : base() + "/fsroot"; }
  std::string cpuid() const { return kind == "x86" ? base() : base() + "/cpuid"; }
  std::string sysprefix() const { return kind == "linux" ? "sys/devices/system/" : "fsroot/sys/devices/system/"; }
};

bool ends_with(const std::string &s, const char *suf) { size_t n = strlen(suf); return s.size() >= n && !s.compare(s.size() - n, n, suf); }

std::vector<std::string> list_dir(const std::string &d) {
  std::vector<std::string> v; DIR *dir = opendir(d.c_str()); if (!dir) return v;
  while (struct dirent *e = readdir(dir)) { std::string n = e->d_name; if (n != "." && n != "..") v.push_back(n); }
  closedir(dir); std::sort(v.begin(), v.end()); return v;
}
std::string read_small(const std::string &p) { std::string s; FILE *f = fopen(p.c_str(), "rb"); if (!f) return s; char b[4096]; size_t n; while ((n = fread(b, 1, sizeof b, f)) > 0) s.append(b, n); fclose(f); return s; }
std::string trim(std::string s) { while (!s.empty() && isspace((unsigned char)s.back())) s.pop_back(); size_t i = 0; while (i < s.size() && isspace((unsigned char)s[i])) i++; return s.substr(i); }

// "NAME=VALUE" (value possibly quoted) -> env list entry; variables that are another dimension of the op, that only change verbosity, or
// that are debug knobs documented to break invariants are not taken over
void add_env_line(EnvList &e, const std::string &line0) {
  std::string line = trim(line0); if (line.empty() || line[0] == '#' || line.rfind("export", 0) == 0) return;
  size_t eq = line.find('='); if (eq == std::string::npos || eq == 0) return;
  std::string k = line.substr(0, eq), v = line.substr(eq + 1);
  if (v.size() >= 2 && (v[0] == '"' || v[0] == '\'') && v.back() == v[0]) v = v.substr(1, v.size() - 2);
  if (k.rfind("HWLOC_", 0) != 0 || k == "HWLOC_COMPONENTS" || k == "HWLOC_HIDE_ERRORS" || k.rfind("HWLOC_DEBUG", 0) == 0 || k == "HWLOC_FSROOT" || k == "HWLOC_CPUID_PATH" || k == "HWLOC_THISSYSTEM") return;
  e.push_back({k, v});
}

std::vector<Snap> &snaps() {
  static std::vector<Snap> v; static bool done = false;
  if (done) return v; done = true;
  for (const char *kind : {"linux", "x86", "x86+linux"}) {
    std::string d = repo_path() + "/tests/hwloc/" + kind; std::vector<std::string> names = list_dir(d);
    size_t first = v.size();
    for (auto &n : names) if (ends_with(n, ".tar.bz2")) { Snap s; s.name = n.substr(0, n.size() - 8); s.kind = kind; s.tarball = d + "/" + n; s.envs.push_back(EnvList()); v.push_back(s); }
    // what the test suite sets when it loads a snapshot: "env:" lines of the *.test files naming the tarball as source, and <name>.env
    for (auto &n : names) {
      EnvList e; std::string src;
      if (ends_with(n, ".test")) { std::string txt = read_small(d + "/" + n); size_t p = 0; while (p < txt.size()) { size_t eol = txt.find('\n', p); if (eol == std::string::npos) eol = txt.size(); std::string l = txt.substr(p, eol - p); p = eol + 1; if (l.rfind("source:", 0) == 0) src = trim(l.substr(7)); else if (l.rfind("env:", 0) == 0) add_env_line(e, l.substr(4)); } }
      else if (ends_with(n, ".env")) { src = n.substr(0, n.size() - 4) + ".tar.bz2"; std::string txt = read_small(d + "/" + n); size_t p = 0; while (p < txt.size()) { size_t eol = txt.find('\n', p); if (eol == std::string::npos) eol = txt.size(); add_env_line(e, txt.substr(p, eol - p)); p = eol + 1; } }
      if (e.empty() || src.empty()) continue;
      for (size_t i = first; i < v.size(); i++) if (v[i].name + ".tar.bz2" == src && std::find(v[i].envs.begin(), v[i].envs.end(), e) == v[i].envs.end()) v[i].envs.push_back(e);
    }
  }
  std::sort(v.begin(), v.end(), [](const Snap &a, const Snap &b) { return a.kind + "/" + a.name < b.kind + "/" + b.name; });
  return v;
}

int run_cmd(const std::string &c) { int rc = system(c.c_str()); return rc; }
std::string shq(const std::string &s) { std::string o = "'"; for (char c : s) { if (c == '\'') o += "'\\''"; else o += c; } return o + "'"; }

uint64_t g_use_clock = 0;
double now_s() { struct timespec ts; clock_gettime(CLOCK_MONOTONIC, &ts); return ts.tv_sec + ts.tv_nsec * 1e-9; }
struct Timing { const char *what; std::string arg; double t0; Timing(const char *w, const std::string &a) : what(w), arg(a), t0(getenv("HWSIM_TIMING") ? now_s() : 0) {} ~Timing() { if (t0) fprintf(stderr, "TIMING %s %s %.3f\n", what, arg.c_str(), now_s() - t0); } };   // debugging aid, never enters the event log

// The simulated disk has two layers. (1) A master copy of each tarball, extracted once per batch by whichever worker needs it first, in
// <scratch base>/hwsim.<pid of the runner>.snapmaster/ (same tmpfs as the scratch directories; removed by the runner like the scratch directory
// of a dead worker). Nobody ever writes into an extracted master. (2) The tree a worker loads from and removes paths in: private to the process,
// its directories are real, its files and symlinks are hard links to the master's. rename() of a hard link or of a private directory is
// invisible to every other process, so the fault is as physical as on a private extraction, at a fraction of the cost (RAM and time).
std::string master_root() { std::string sd = scratch_dir(); return sd.substr(0, sd.rfind('/')) + "/hwsim." + std::to_string((int)getppid()) + ".snapmaster"; }

bool is_dir(const std::string &p) { struct stat st; return lstat(p.c_str(), &st) == 0 && S_ISDIR(st.st_mode); }
void remove_tree(const std::string &p) {
  struct stat st; if (lstat(p.c_str(), &st) < 0) return;
  if (S_ISDIR(st.st_mode)) { for (auto &n : list_dir(p)) remove_tree(p + "/" + n); rmdir(p.c_str()); } else unlink(p.c_str());
}
void mkdirs(const std::string &p) { for (size_t i = 1; i <= p.size(); i++) if (i == p.size() || p[i] == '/') mkdir(p.substr(0, i).c_str(), 0700); }

bool extract_to(const Snap &s, const std::string &final_dir) {
  std::string tmp = final_dir + ".tmp." + std::to_string((int)getpid());
  int rc = run_cmd("rm -rf " + shq(tmp) + "; mkdir -p " + shq(tmp) + " && tar -xjf " + shq(s.tarball) + " -C " + shq(tmp) + " >/dev/null 2>&1 && chmod -R u+rwX " + shq(tmp) + " >/dev/null 2>&1");
  if (rc != 0) { remove_tree(tmp); return false; }
  if (rename(tmp.c_str(), final_dir.c_str()) < 0) remove_tree(tmp);   // somebody else was faster: theirs is as good
  return is_dir(final_dir);
}

std::string ensure_master(const Snap &s) {
  struct stat ts; Fnv f; f.str(s.tarball); if (stat(s.tarball.c_str(), &ts) == 0) { f.u64((uint64_t)ts.st_size); f.u64((uint64_t)ts.st_mtime); }
  char hx[24]; snprintf(hx, sizeof hx, "%08x", (unsigned)(f.h & 0xffffffffu));
  std::string kd = s.kind == "x86+linux" ? "x86linux" : s.kind, base = master_root() + "/" + kd, m = base + "/" + s.name + "." + hx;
  if (is_dir(m)) return m;
  Timing tm("extract", s.name);
  mkdirs(base);
  std::string lock = m + ".lock";
  if (mkdir(lock.c_str(), 0700) == 0) { bool ok = extract_to(s, m); rmdir(lock.c_str()); return ok ? m : ""; }
  for (int i = 0; i < 3000 && !is_dir(m) && is_dir(lock); i++) usleep(5000);   // another worker is extracting it (never logged: only the content matters)
  if (is_dir(m)) return m;
  return extract_to(s, m) ? m : "";   // the lock holder died
}

// one walk of a master tree: either list the removable paths (no write at all) or build the private tree of hard links
bool walk_tree(const std::string &src, const std::string &dst, const std::string &rel, Snap &s, bool list) {
  if (!list && mkdir(dst.c_str(), 0700) < 0 && errno != EEXIST) return false;
  std::vector<std::pair<std::string, int>> ents;   // (name, 1 directory / 2 file or symlink / 0 other)
  DIR *dir = opendir(src.c_str()); if (!dir) return false;
  while (struct dirent *e = readdir(dir)) {
    if (!strcmp(e->d_name, ".") || !strcmp(e->d_name, "..")) continue;
    int k = e->d_type == DT_DIR ? 1 : (e->d_type == DT_REG || e->d_type == DT_LNK) ? 2 : 0;
    if (e->d_type == DT_UNKNOWN) { struct stat st; if (lstat((src + "/" + e->d_name).c_str(), &st) == 0) k = S_ISDIR(st.st_mode) ? 1 : (S_ISREG(st.st_mode) || S_ISLNK(st.st_mode)) ? 2 : 0; }
    ents.push_back({e->d_name, k});
  }
  closedir(dir);
  std::string a = src + "/", d = dst + "/", r = rel.empty() ? "" : rel + "/"; size_t al = a.size(), dl = d.size(), rl = r.size();
  for (auto &en : ents) {
    const std::string &n = en.first; a.resize(al); a += n; d.resize(dl); d += n; r.resize(rl); r += n;
    if (!list) s.entries++;
    if (en.second == 1) { if (list && !isdigit((unsigned char)n.back())) s.removable.push_back(r); if (!walk_tree(a, d, r, s, list)) return false; }   // numbered instance directories are guaranteed by the kernel
    else if (en.second == 2) { if (list) s.removable.push_back(r); else if (link(a.c_str(), d.c_str()) < 0) return false; }
  }
  return true;
}

const uint64_t CACHE_ENTRIES = 200000;   // directory entries of private trees kept per worker process (tmpfs dentries = kernel memory)

void evict(Snap &s) { if (!s.extracted) return; remove_tree(s.dir); s.extracted = false; }

// master copy present, the directory inside the tarball detected (its name may differ from the tarball's), removable paths listed
bool ensure_listed(Snap &s) {
  if (s.listed && is_dir(s.minner)) return true;
  s.master = ensure_master(s);
  if (s.master.empty()) { fprintf(stderr, "hwsim: cannot extract %s\n", s.tarball.c_str()); return false; }
  std::string found; for (auto &n : list_dir(s.master)) if (is_dir(s.master + "/" + n) && found.empty()) found = n;
  if (found.empty()) { fprintf(stderr, "hwsim: no directory inside %s\n", s.tarball.c_str()); return false; }
  s.innername = found; s.minner = s.master + "/" + found;
  if (!s.listed) {
    Timing tm("list", s.name);
    s.removable.clear(); s.sysidx.clear();
    if (!walk_tree(s.minner, "", "", s, true)) return false;
    std::sort(s.removable.begin(), s.removable.end());
    std::string pre = s.sysprefix(); if (s.has_fsroot()) for (size_t i = 0; i < s.removable.size(); i++) if (s.removable[i].rfind(pre, 0) == 0) s.sysidx.push_back((uint32_t)i);
    s.listed = true;
  }
  return true;
}

// the private tree (needed as soon as a path is removed)
bool ensure_extracted(Snap &s) {
  s.last_use = ++g_use_clock;
  if (!ensure_listed(s)) return false;
  if (s.extracted) return true;
  Timing tm("link", s.name);
  std::string kd = s.kind == "x86+linux" ? "x86linux" : s.kind;
  s.dir = std::string(scratch_dir()) + "/snap/" + kd + "/" + s.name;
  remove_tree(s.dir); mkdirs(s.dir);
  s.entries = 0; s.inner = s.dir + "/" + s.innername;
  if (!walk_tree(s.minner, s.inner, "", s, false)) { fprintf(stderr, "hwsim: cannot link %s (%s)\n", s.name.c_str(), strerror(errno)); remove_tree(s.dir); return false; }
  s.extracted = true;
  // bounded cache: least recently used trees go first
  for (;;) {
    uint64_t tot = 0; Snap *old = nullptr;
    for (auto &x : snaps()) if (x.extracted) { tot += x.entries; if (&x != &s && (!old || x.last_use < old->last_use)) old = &x; }
    if (tot <= CACHE_ENTRIES || !old) break;
    evict(*old);
  }
  return true;
}

// ------------------------------------------------------------------------------------------------ the fault: path removal
struct Stash {
  Snap &s; std::vector<std::pair<std::string, std::string>> moved; static uint64_t serial;
  explicit Stash(Snap &sn) : s(sn) {}
  bool remove(const std::string &rel) {
    std::string a = s.inner + "/" + rel; struct stat st;
    if (lstat(a.c_str(), &st) < 0) return false;   // an ancestor is already in the stash (or the same path was drawn twice)
    std::string base = std::string(scratch_dir()) + "/stash"; mkdir(base.c_str(), 0700);
    std::string to = base + "/" + std::to_string(++serial);
    if (rename(a.c_str(), to.c_str()) < 0) return false;
    moved.push_back({a, to}); return true;
  }
  void restore() {
    bool bad = false;
    for (size_t i = moved.size(); i-- > 0;) if (rename(moved[i].second.c_str(), moved[i].first.c_str()) < 0) bad = true;
    moved.clear();
    if (bad) { fprintf(stderr, "hwsim: could not restore snapshot %s: extracting it again\n", s.name.c_str()); evict(s); ensure_extracted(s); }
  }
  ~Stash() { restore(); }   // always: also while a violation unwinds
};
uint64_t Stash::serial = 0;

// what hwloc_x86_check_cpuiddump_input() accepts; a rejected directory makes the x86 backend query the CPUID instruction of the HOST instead
bool cpuid_dir_usable(const std::string &d) {
  std::string info = read_small(d + "/hwloc-cpuid-info"); if (info.rfind("Architecture: x86", 0) != 0) return false;
  std::set<unsigned long> pus; DIR *dir = opendir(d.c_str()); if (!dir) return false;
  while (struct dirent *e = readdir(dir)) { if (!strncmp(e->d_name, "pu", 2)) { char *end; unsigned long i = strtoul(e->d_name + 2, &end, 10); if (!*end) pus.insert(i); } }
  closedir(dir);
  return !pus.empty() && *pus.rbegin() == pus.size() - 1;
}

// ------------------------------------------------------------------------------------------------ one load
struct Spec { Snap *s; std::string comp, filt; unsigned long flags = 0; uint64_t rdperm = 0; unsigned env = 0; };

struct EnvGuard { std::vector<std::string> names; void set(const std::string &k, const std::string &v) { setenv(k.c_str(), v.c_str(), 1); names.push_back(k); } ~EnvGuard() { for (auto &n : names) unsetenv(n.c_str()); } };

int load_snapshot(World &w, const Spec &L, hwloc_topology_t *tp, bool *permuted = nullptr) {
  Run &r = *w.run; *tp = nullptr;
  hwloc_topology_t t = nullptr; if (hwloc_topology_init(&t) < 0) return -1;
  for (size_t ty = 0; ty < L.filt.size() && ty < HWLOC_OBJ_TYPE_MAX; ty++) if (L.filt[ty] >= '0' && L.filt[ty] <= '3') hwloc_topology_set_type_filter(t, (hwloc_obj_type_t)ty, (enum hwloc_type_filter_e)(L.filt[ty] - '0'));   // refused combinations leave the default (C01 judges that)
  hwloc_topology_set_flags(t, L.flags);
  int rc; Timing tm("load", L.s->name);
  {
    EnvGuard env; const Snap &s = *L.s;
    bool lin = L.comp.find("linux") != std::string::npos, x86 = L.comp.find("x86") != std::string::npos;
    env.set("HWLOC_COMPONENTS", L.comp);
    if (lin && s.has_fsroot()) { env.set("HWLOC_FSROOT", s.fsroot()); env.set("HWLOC_DUMPED_HWDATA_DIR", "/var/run/hwloc"); }
    if (x86 && s.has_cpuid()) env.set("HWLOC_CPUID_PATH", s.cpuid());
    for (auto &kv : s.envs[L.env % s.envs.size()]) env.set(kv.first, kv.second);
    uint64_t before = g_rd_dirs_permuted; g_rdperm = L.rdperm;
    rc = hwloc_topology_load(t);
    g_rdperm = 0;
    if (permuted) *permuted = g_rd_dirs_permuted != before;
  }
  r.count("snap_loads");
  if (rc != 0) { hwloc_topology_destroy(t); return rc; }   // a failed load leaves a topology that can only be destroyed (or configured again)
  *tp = t; return 0;
}

struct Topos { Run &r; std::vector<hwloc_topology_t> v; void add(hwloc_topology_t t) { v.push_back(t); } void drop(hwloc_topology_t t) { for (auto &x : v) if (x == t) { hwloc_topology_destroy(t); x = nullptr; } } ~Topos() { if (r.violated || r.cut) return; for (auto t : v) if (t) hwloc_topology_destroy(t); } };

void first_diff(const std::string &a, const std::string &b, std::string &la, std::string &lb) {
  size_t pa = 0, pb = 0;
  while (pa < a.size() || pb < b.size()) { size_t ea = a.find('\n', pa), eb = b.find('\n', pb); if (ea == std::string::npos) ea = a.size(); if (eb == std::string::npos) eb = b.size(); la = a.substr(pa, ea - pa); lb = b.substr(pb, eb - pb); if (la != lb) return; pa = ea + 1; pb = eb + 1; }
  la = lb = "";
}
// see ops_repl.cc: XML import always gives a memory object its parent's complete_cpuset (recorded finding)
Dump memccs_normalised(const Dump &d) {
  Dump n = d;
  for (uint64_t gp : n.order) { ObjRec &o = n.objs.at(gp); if (o.kind() == 1 && o.parent != ~0ULL) { const ObjRec *p = n.find(o.parent); if (p) o.ccs = p->ccs; } }
  return n;
}

// WF of a freshly loaded snapshot topology; the class names the clause, whether paths were removed, and - for histories recorded as
// known findings - the specific shape that tripped it
std::string wf_hint(const Dump &d, const std::string &clause) {
  if (clause.find("hwloc__check_children_cpusets:!prev_empty") != std::string::npos || clause.find("hwloc__check_children_cpusets:prev_first_<_first") != std::string::npos) {
    // a memory-only Group (NUMA node whose CPUs were all dropped after it was inserted by cpuset) sitting before siblings that have CPUs
    for (auto &kv : d.objs) { const ObjRec &p = kv.second; bool seen_empty_memgroup = false;
      for (uint64_t cg : p.kids[0]) { const ObjRec *c = d.find(cg); if (!c) continue; if (c->ccs.empty()) { if (c->type == HWLOC_OBJ_GROUP && !c->kids[1].empty()) seen_empty_memgroup = true; } else if (seen_empty_memgroup) return ".cpuless_numa_group_not_last"; } }
  }
  if (clause.rfind("wf.set_inclusion", 0) == 0) {
    // the NUMA node the core adds when discovery found none: it carries the root's sets but is attached below the deepest object that has the
    // root's cpuset, whose complete_cpuset is smaller when disallowed/offline CPUs lie outside that object
    const ObjRec *root = d.find(d.root); unsigned nn = 0; const ObjRec *n = nullptr;
    for (auto &kv : d.objs) if (kv.second.type == HWLOC_OBJ_NUMANODE) { nn++; n = &kv.second; }
    if (root && nn == 1 && n->parent != d.root) { const ObjRec *p = d.find(n->parent); if (p && n->cs == root->cs && n->ccs == root->ccs && p->cs == root->cs && p->ccs != root->ccs && n->cs.subset_of(p->cs) && n->ns.subset_of(p->ns) && n->cns.subset_of(p->cns)) return ".lone_numa_node_with_root_complete_cpuset_below_root"; }
  }
  if (clause.rfind("wf.set_inclusion", 0) == 0) {
    // I/O locality Group (hwloc_find_insert_io_parent_by_complete_cpuset) over CPUs that are in the complete cpuset but have no PU object:
    // hwloc_obj_add_children_sets() finds no child, the Group keeps NULL nodesets
    for (auto &kv : d.objs) { const ObjRec &o = kv.second; if (o.type == HWLOC_OBJ_GROUP && o.attr.find(" kind=1000 ") != std::string::npos && o.kids[0].empty() && o.cs.empty() && !o.ccs.empty() && o.ns.empty() && o.cns.empty()) return ".io_group_over_cpus_without_pu"; }
  }
  if (clause.rfind("wf.filtered_type", 0) == 0 && d.filters[HWLOC_OBJ_GROUP] == HWLOC_TYPE_FILTER_KEEP_NONE) {
    // Knights Landing sub-NUMA clusters: the Linux back-end inserts the "Cluster" Group (DDR + MCDRAM) without asking the Group filter
    bool other = false, knl = false;
    for (auto &kv : d.objs) { const ObjRec &o = kv.second; int f = d.filters[o.type]; if (f != HWLOC_TYPE_FILTER_KEEP_NONE) continue; if (o.type == HWLOC_OBJ_GROUP && o.has_subtype && o.subtype == "Cluster" && o.attr.find(" kind=100 ") != std::string::npos) knl = true; else other = true; }
    if (knl && !other) return ".knl_snc_cluster_group";
  }
  return "";
}
void snapshot_wf(World &w, hwloc_topology_t t, const char *own, const std::string &tag, const Snap &s, const std::string &what, Dump *out = nullptr) {
  Dump d; take_dump(t, d, DUMP_FULL); std::string e = wf_check(t, d); if (out) *out = d; if (e.empty()) return;
  std::string clause = e.substr(0, e.find(": "));
  viol(w, own, clause + "." + tag + wf_hint(d, clause), "%s %s/%s is not well formed (%s): %s", what.c_str(), s.kind.c_str(), s.name.c_str(), tag.c_str(), e.c_str());
}

std::vector<std::string> comps_of(const Snap &s) {
  if (s.kind == "linux") return {"linux,stop"};
  if (s.kind == "x86") return {"x86,stop"};
  return {"x86,linux,stop", "linux,x86,stop", "linux,stop", "x86,stop"};
}

Spec spec_of(Snap &s, const Op &o) {
  Spec L; L.s = &s; std::vector<std::string> cs = comps_of(s); L.comp = cs[o.u("comp") % cs.size()];
  L.filt = o.s("filt", ""); if (!L.filt.empty() && L.filt[0] == 'f') L.filt.erase(0, 1);   // "f" + one char per type: never a number for the runner's integer simplification
  if (L.filt.size() > HWLOC_OBJ_TYPE_MAX) L.filt.resize(HWLOC_OBJ_TYPE_MAX);
  unsigned long allowed = HWLOC_TOPOLOGY_FLAG_INCLUDE_DISALLOWED | HWLOC_TOPOLOGY_FLAG_IMPORT_SUPPORT | HWLOC_TOPOLOGY_FLAG_NO_DISTANCES | HWLOC_TOPOLOGY_FLAG_NO_MEMATTRS | HWLOC_TOPOLOGY_FLAG_NO_CPUKINDS;
  if (L.comp.find("linux") != std::string::npos) allowed |= HWLOC_TOPOLOGY_FLAG_THISSYSTEM_ALLOWED_RESOURCES;   // FSROOT sources only
  L.flags = (unsigned long)o.u("flags") & allowed; L.rdperm = o.u("rdperm"); L.env = (unsigned)o.u("env");
  return L;
}
uint64_t spec_hash(const Spec &L) { Fnv f; f.str(L.s->kind); f.str(L.s->name); f.str(L.comp); f.str(L.filt); f.u64(L.flags); f.u64(L.rdperm); f.u64(L.env % L.s->envs.size()); return f.h; }

bool host_dependent(const Spec &L) { return L.comp.find("x86") != std::string::npos && !cpuid_dir_usable(L.s->cpuid()); }

// (a) after a clean failure the untouched snapshot loads on a fresh topology
void reload_untouched(World &w, const Spec &L, const char *ctx) {
  Run &r = *w.run; hwloc_topology_t t = nullptr; Spec U = L; U.rdperm = 0;
  int rc = load_snapshot(w, U, &t);
  if (rc != 0) viol0(w, "C18", "snap.reload_after_failure", "%s: after a failed load with removed paths, loading the untouched snapshot %s/%s (%s) on a fresh topology returned %d", ctx, L.s->kind.c_str(), L.s->name.c_str(), L.comp.c_str(), rc);
  hwloc_topology_destroy(t); r.count("probe.snap_reload_after_failure_ok");
}

}  // namespace

size_t snapshot_count() { return snaps().size(); }

// An intact snapshot as an ordinary source of the topo machine (plan header "src snap <index> <comp> [<env>]"): `t` is initialised and configured
// (filters, flags) by the caller; the environment is set around hwloc_topology_load() only. Reads the shared master copy, no private tree needed.
int snapshot_load(hwloc_topology_t t, size_t index, unsigned comp, unsigned env, std::string *desc) {
  std::vector<Snap> &all = snaps(); if (all.empty()) return -1;
  Snap &s = all[index % all.size()]; if (!ensure_listed(s)) return -1;
  s.use_private = false;
  std::vector<std::string> cs = comps_of(s); std::string c = cs[comp % cs.size()];
  if (desc) *desc = s.kind + "/" + s.name + " " + c + " env=" + std::to_string(env % s.envs.size());
  EnvGuard g; bool lin = c.find("linux") != std::string::npos, x86 = c.find("x86") != std::string::npos;
  g.set("HWLOC_COMPONENTS", c);
  if (lin && s.has_fsroot()) { g.set("HWLOC_FSROOT", s.fsroot()); g.set("HWLOC_DUMPED_HWDATA_DIR", "/var/run/hwloc"); }
  if (x86 && s.has_cpuid()) g.set("HWLOC_CPUID_PATH", s.cpuid());
  for (auto &kv : s.envs[env % s.envs.size()]) g.set(kv.first, kv.second);
  return hwloc_topology_load(t);
}
long snapshot_index(const char *name) { auto &all = snaps(); for (size_t i = 0; i < all.size(); i++) if (all[i].name == name) return (long)i; return -1; }
const char *snapshot_kind(size_t i) { return i < snaps().size() ? snaps()[i].kind.c_str() : ""; }

bool ops_snapshot(World &w, const Op &o) {
  Run &r = *w.run;
  std::vector<Snap> &all = snaps();
  if (o.kind == "snap_load") {
    if (all.empty()) { r.ev("snap_load: no snapshot found"); return true; }
    Snap &s = all[o.u("snap") % all.size()];
    if (!ensure_listed(s)) { r.ev("snap_load: snapshot not available"); r.count("snap_unavailable"); return true; }
    Timing tm("snap_load", s.name + " check=" + o.s("check") + " filt=" + o.s("filt"));
    Spec L = spec_of(s, o); unsigned check = (unsigned)o.u("check");
    unsigned nrem = (unsigned)(o.u("nrem") % 41); if (s.removable.empty()) nrem = 0;
    bool c01 = w.cfg.is("C01"); if (c01) { nrem = 0; check = 0; L.rdperm = 0; }   // C01 quantifies over intact snapshot sources: WF only
    const char *own = c01 ? "C01" : "C18";
    r.count(std::string("probe.snap_kind_") + (s.kind == "linux" ? "linux" : s.kind == "x86" ? "x86" : "x86linux"));
    // removal set: nrem indices into the removable list, from the seed
    s.use_private = nrem > 0 || o.has("paths");   // an intact snapshot is read from the master copy (nothing is ever written there)
    if (s.use_private && !ensure_extracted(s)) { r.ev("snap_load: snapshot not available"); r.count("snap_unavailable"); return true; }
    Stash st(s); Rng g(o.u("rs")); Fnv rh; unsigned moved = 0;
    std::vector<size_t> draws; for (unsigned i = 0; i < nrem; i++) draws.push_back((size_t)(g.next() % s.removable.size()));
    if (o.has("paths") && !c01 && !s.removable.empty()) {   // explicit removal set (hand-written / minimised replays): comma-separated indices into the removable list, or relative paths
      draws.clear(); std::string pl = o.s("paths"); size_t p = 0; while (p < pl.size()) { size_t e = pl.find(',', p); if (e == std::string::npos) e = pl.size(); if (e > p) { std::string tk = pl.substr(p, e - p); if (isdigit((unsigned char)tk[0])) draws.push_back((size_t)(strtoull(tk.c_str(), nullptr, 0) % s.removable.size())); else { auto it = std::lower_bound(s.removable.begin(), s.removable.end(), tk); if (it != s.removable.end() && *it == tk) draws.push_back((size_t)(it - s.removable.begin())); } } p = e + 1; }   // an index, or the path itself
      nrem = (unsigned)draws.size();
    }
    for (size_t idx : draws) { if (st.remove(s.removable[idx])) { moved++; rh.u64(idx); if (r.verbose) printf("SNAP removed [%zu] %s\n", idx, s.removable[idx].c_str()); } }
    r.count("probe.snap_paths_removed", nrem); r.count("fault.path_removed", moved);
    const char *tag = moved ? "removed" : "intact";
    bool hostdep = host_dependent(L); if (hostdep) r.count("probe.snap_cpuid_dump_rejected_host_cpuid_used");
    Topos T{r};
    hwloc_topology_t t1 = nullptr; bool perm = false; int rc = load_snapshot(w, L, &t1, &perm); if (t1) T.add(t1);
    if (perm) r.count("fault.readdir_permuted");
    r.ev("snap_load %s/%s comp=%s env=%u filt=%s flags=0x%lx nrem=%u moved=%u rdperm=%d -> %d", s.kind.c_str(), s.name.c_str(), L.comp.c_str(), (unsigned)(L.env % s.envs.size()), L.filt.c_str(), L.flags, nrem, moved, L.rdperm ? 1 : 0, rc);
    if (rc != 0 && rc != -1) viol0(w, own, "snap.return_value", "hwloc_topology_load returned %d", rc);
    uint64_t cfgh = spec_hash(L);
    if (rc != 0) {
      r.count("probe.snap_load_failed_cleanly"); if (!moved) r.count("probe.snap_intact_load_failed");
      st.restore();
      if (!c01) reload_untouched(w, L, "snap_load");
      r.distinct("state", mix2(mix2(cfgh, rh.h), 0xfa11));
      return true;
    }
    r.count("probe.snap_load_ok");
    snapshot_wf(w, t1, own, tag, s, "the topology loaded from");
    Dump d1; readonly_battery(w, t1, own, tag, "a snapshot loaded successfully into a topology that is not well formed", o.u("rs"), &d1);
    std::string text1 = d1.text();
    if (text1.find(scratch_dir()) != std::string::npos) { hostdep = true; r.count("harness.scratch_path_in_dump"); }
    if (hostdep) { r.distinct("state", mix2(mix2(cfgh, rh.h), 0x4057)); return true; }   // judged by (a)(b) only: what was discovered belongs to the host
    uint64_t dh = hash_str(text1);
    r.ev("snap_load dump %016llx objs=%zu", (unsigned long long)dh, d1.order.size());
    r.distinct("state", mix2(mix2(cfgh, rh.h), dh));
    // (c) determinism: same snapshot, removal set, configuration and readdir order
    if (check & 1) {
      hwloc_topology_t t2 = nullptr; int rc2 = load_snapshot(w, L, &t2); if (t2) T.add(t2);
      if (rc2 != 0) viol0(w, "C18", "snap.nondeterministic", "the first load of %s/%s succeeded, the second load with the same configuration returned %d", s.kind.c_str(), s.name.c_str(), rc2);
      Dump d2; take_dump(t2, d2, DUMP_FULL); std::string text2 = d2.text();
      if (text1 != text2) { std::string la, lb; first_diff(text1, text2, la, lb); viol0(w, "C18", "snap.nondeterministic", "two loads of %s/%s (%s, %u paths removed) with the same configuration and readdir order differ: '%s' vs '%s'", s.kind.c_str(), s.name.c_str(), L.comp.c_str(), moved, la.substr(0, 700).c_str(), lb.substr(0, 700).c_str()); }
      T.drop(t2); r.count("probe.snap_determinism_checked");
    }
    // readdir order as a dimension: not an oracle (any order is legal kernel behaviour and gp_index / I/O sibling order follow it); measured
    if ((check & 8) && L.rdperm) {
      Spec S0 = L; S0.rdperm = 0; hwloc_topology_t t4 = nullptr; int rc4 = load_snapshot(w, S0, &t4); if (t4) T.add(t4);
      if (rc4 == 0) { Dump d4; take_dump(t4, d4, DUMP_FULL); r.count("probe.snap_order_compared"); if (d4.text_norm(false) != d1.text_norm(false)) r.count("probe.snap_order_changes_result"); T.drop(t4); }
    }
    // (d) INCLUDE_DISALLOWED relation on the identically trimmed tree, same filters
    if (check & 2) {
      Spec O = L; O.flags ^= HWLOC_TOPOLOGY_FLAG_INCLUDE_DISALLOWED;
      hwloc_topology_t t3 = nullptr; int rc3 = load_snapshot(w, O, &t3); if (t3) T.add(t3);
      r.ev("snap_load other view flags=0x%lx -> %d", O.flags, rc3);
      if (rc3 != 0) r.count("probe.snap_other_view_load_failed");
      else {
        Dump d3; take_dump(t3, d3, DUMP_FULL);
        { std::string e = wf_check(t3, d3); if (!e.empty()) { std::string cl = e.substr(0, e.find(": ")); viol(w, "C18", cl + "." + tag + wf_hint(d3, cl), "the %s view of %s/%s: %s", (O.flags & 1) ? "INCLUDE_DISALLOWED" : "default", s.kind.c_str(), s.name.c_str(), e.c_str()); } }
        const Dump &def = (L.flags & HWLOC_TOPOLOGY_FLAG_INCLUDE_DISALLOWED) ? d3 : d1, &inc = (L.flags & HWLOC_TOPOLOGY_FLAG_INCLUDE_DISALLOWED) ? d1 : d3;
        std::set<unsigned> ipu, inuma; for (auto &kv : inc.objs) { if (kv.second.type == HWLOC_OBJ_PU) ipu.insert(kv.second.os_index); if (kv.second.type == HWLOC_OBJ_NUMANODE) inuma.insert(kv.second.os_index); }
        for (auto &kv : def.objs) {
          const ObjRec &x = kv.second;
          if (x.type == HWLOC_OBJ_PU && !ipu.count(x.os_index)) viol0(w, "C18", "snap.include_disallowed_relation", "%s/%s (%s, %u paths removed): PU P#%u of the default load is missing from the INCLUDE_DISALLOWED load", s.kind.c_str(), s.name.c_str(), L.comp.c_str(), moved, x.os_index);
          if (x.type == HWLOC_OBJ_NUMANODE && !inuma.count(x.os_index)) viol0(w, "C18", "snap.include_disallowed_relation", "%s/%s (%s, %u paths removed): NUMA node P#%u of the default load is missing from the INCLUDE_DISALLOWED load", s.kind.c_str(), s.name.c_str(), L.comp.c_str(), moved, x.os_index);
        }
        const ObjRec *dr = def.find(def.root);
        if (dr && (inc.acs != dr->cs || inc.ans != dr->ns)) viol0(w, "C18", "snap.include_disallowed_relation", "%s/%s (%s, %u paths removed): allowed sets of the INCLUDE_DISALLOWED load (%s / %s) differ from the root sets of the default load (%s / %s)", s.kind.c_str(), s.name.c_str(), L.comp.c_str(), moved, inc.acs.str().c_str(), inc.ans.str().c_str(), dr->cs.str().c_str(), dr->ns.str().c_str());
        r.count("probe.snap_include_disallowed_checked"); if (inc.objs.size() != def.objs.size()) r.count("probe.snap_disallowed_view_is_larger");
        T.drop(t3);
      }
    }
    st.restore();   // the XML round trip does not look at the disk
    // (e) XML restart: own export, same flags, all types kept
    if (check & 4) {
      char *xb = nullptr; int xl = 0; int xrc = hwloc_topology_export_xmlbuffer(t1, &xb, &xl, 0);
      if (xrc != 0 || !xb) viol0(w, "C18", "snap.xml_export_failed", "XML export of the topology loaded from %s/%s failed (%d)", s.kind.c_str(), s.name.c_str(), xrc);
      std::string xml(xb, xl > 0 ? (size_t)xl - 1 : 0); hwloc_free_xmlbuffer(t1, xb);
      hwloc_topology_t nt = nullptr; hwloc_topology_init(&nt); T.add(nt);
      hwloc_topology_set_all_types_filter(nt, HWLOC_TYPE_FILTER_KEEP_ALL);
      unsigned long fl = L.flags & ~(unsigned long)HWLOC_TOPOLOGY_FLAG_THISSYSTEM_ALLOWED_RESOURCES;
      hwloc_topology_set_flags(nt, fl);
      int rc1 = hwloc_topology_set_xmlbuffer(nt, xml.c_str(), (int)xml.size() + 1); int rc2 = rc1 == 0 ? hwloc_topology_load(nt) : -1;
      r.ev("snap_load xml restart len=%zu set=%d load=%d", xml.size(), rc1, rc2);
      if (rc1 < 0 || rc2 < 0) viol0(w, "C18", "snap.xml_reload_failed", "the XML export of the topology loaded from %s/%s does not load back (set %d, load %d)", s.kind.c_str(), s.name.c_str(), rc1, rc2);
      Dump ds = d1, dd; take_dump(nt, dd, DUMP_FULL);
      { std::string e = wf_check(nt, dd); if (!e.empty()) viol(w, "C18", e.substr(0, e.find(": ")) + ".xml_restart_" + tag, "topology reloaded from the XML export of %s/%s: %s", s.kind.c_str(), s.name.c_str(), e.c_str()); }
      ds.flags = fl; // THISSYSTEM_ALLOWED_RESOURCES is meaningless for an XML source
      std::string a = ds.text(true), b = dd.text(true);
      if (a != b && getenv("HWSIM_DIFFDIR")) { std::string d = getenv("HWSIM_DIFFDIR"); FILE *f = fopen((d + "/a.txt").c_str(), "w"); if (f) { fputs(a.c_str(), f); fclose(f); } f = fopen((d + "/b.txt").c_str(), "w"); if (f) { fputs(b.c_str(), f); fclose(f); } f = fopen((d + "/x.xml").c_str(), "w"); if (f) { fputs(xml.c_str(), f); fclose(f); } }
      if (a != b && memccs_normalised(ds).text(true) == memccs_normalised(dd).text(true)) viol0(w, "C18", "snap.xml_restart_differs.memory_child_complete_cpuset", "%s/%s: only the complete_cpuset of memory objects differs: the native load gives a NUMA node/MemCache a complete_cpuset that is not its parent's, XML import always copies the parent's", s.kind.c_str(), s.name.c_str());
      if (a != b) { std::string la, lb; first_diff(a, b, la, lb); viol0(w, "C18", "snap.xml_restart_differs", "%s/%s (%s, %u paths removed): the topology reloaded from its own XML export differs: '%s' vs '%s'", s.kind.c_str(), s.name.c_str(), L.comp.c_str(), moved, la.substr(0, 800).c_str(), lb.substr(0, 800).c_str()); }
      r.count("probe.snap_xml_restart_checked");
    }
    return true;
  }
  if (o.kind == "snap_enum") {
    // exhaustive sweep of a finite fault space: all single / pairwise removals under sys/devices/system of a small snapshot
    std::vector<Snap *> fs; for (auto &x : all) if (x.has_fsroot()) fs.push_back(&x);
    if (fs.empty()) { r.ev("snap_enum: no snapshot found"); return true; }
    bool pairs = o.s("which", "single") == "pair";
    uint64_t count = o.u("count", 50); if (count < 1) count = 1; if (count > 1000) count = 1000;
    auto small = [](const Snap &x) { return x.listed && !x.sysidx.empty() && x.sysidx.size() < 400; };
    auto space = [&](const Snap &x) { uint64_t n = x.sysidx.size(); return pairs ? n * (n - 1) / 2 : n; };
    Snap *sp = nullptr; uint64_t lchunk = 0;
    if (o.has("snap")) {   // one named snapshot (hand-written plans)
      sp = fs[o.u("snap") % fs.size()];
      if (!ensure_listed(*sp)) { r.ev("snap_enum: snapshot not available"); return true; }
      if (!small(*sp)) { r.ev("snap_enum %s/%s: %zu removable paths under sys/devices/system, not enumerated", sp->kind.c_str(), sp->name.c_str(), sp->sysidx.size()); r.count("enum_not_small"); return true; }
      lchunk = o.u("from") % ((space(*sp) + count - 1) / count);
    } else {   // `from` indexes the chunks of all small snapshots, concatenated in list order: uniform over the whole finite fault space
      for (Snap *x : fs) if (!x->listed && !ensure_listed(*x)) { r.ev("snap_enum: snapshot not available"); return true; }   // one-time listing per worker process
      uint64_t total_chunks = 0; for (Snap *x : fs) if (small(*x)) { total_chunks += (space(*x) + count - 1) / count; r.count("enumspace." + x->name + "." + std::to_string(x->sysidx.size())); }
      if (!total_chunks) { r.ev("snap_enum: no small snapshot"); return true; }
      uint64_t c = o.u("from") % total_chunks;
      for (Snap *x : fs) if (small(*x)) { uint64_t nc = (space(*x) + count - 1) / count; if (c < nc) { sp = x; lchunk = c; break; } c -= nc; }
    }
    sp->use_private = true; if (!ensure_extracted(*sp)) { r.ev("snap_enum: snapshot not available"); return true; }
    Snap &s = *sp; uint64_t n = s.sysidx.size(), total = space(s), from = lchunk * count, to = std::min(total, from + count);
    if (o.has("snap")) r.count("enumspace." + s.name + "." + std::to_string(n));   // the size of the space, for the evidence (checks.py)
    Spec L = spec_of(s, o); L.rdperm = 0; if (L.comp.find("linux") == std::string::npos) L.comp = comps_of(s)[0];
    // unrank `from` into (i, j), i < j
    uint64_t i = 0, j = 0; if (pairs) { uint64_t k = from; while (k >= n - 1 - i) { k -= n - 1 - i; i++; } j = i + 1 + k; }
    Fnv res; uint64_t failed = 0, ok = 0;
    std::string setname = pairs ? "enumP-" : "enumS-"; for (char c : s.name) setname += isalnum((unsigned char)c) ? c : '_';
    for (uint64_t k = from; k < to; k++) {
      Stash st(s); unsigned moved = 0;
      std::string what = "the topology loaded after removing {";
      if (pairs) { moved += st.remove(s.removable[s.sysidx[i]]); moved += st.remove(s.removable[s.sysidx[j]]); what += s.removable[s.sysidx[i]] + ", " + s.removable[s.sysidx[j]]; } else { moved += st.remove(s.removable[s.sysidx[k]]); what += s.removable[s.sysidx[k]]; }
      what += "} (element " + std::to_string(k) + ") from";
      r.count("fault.path_removed", moved);
      hwloc_topology_t t = nullptr; int rc = load_snapshot(w, L, &t);
      if (rc != 0 && rc != -1) viol0(w, "C18", "snap.return_value", "hwloc_topology_load returned %d", rc);
      if (rc == 0) { Topos T{r}; T.add(t); Dump d; snapshot_wf(w, t, "C18", "removed", s, what, &d);
        // every single removal gets the full read-only battery; of the pairs a seeded eighth does (the others: return value + WF), which keeps the sweep of the quadratic space affordable
        if (!pairs || mix2(o.u("rs"), k) % 8 == 0) { readonly_battery(w, t, "C18", "removed", "a snapshot loaded successfully into a topology that is not well formed", mix2(o.u("rs"), k)); r.count("probe.enum_full_battery"); } res.u64(d.hash()); ok++; r.distinct("state", mix2(mix2(spec_hash(L), k + (pairs ? 1ULL << 40 : 0)), d.hash())); }
      else { failed++; res.u64(~0ULL); }
      r.distinct(setname, k);   // per snapshot: the evidence compares the number of distinct elements executed with the size of the space
      if (pairs) { if (++j >= n) { i++; j = i + 1; } }
    }
    if (failed) reload_untouched(w, L, "snap_enum");
    r.count(pairs ? "probe.enum_pairs_done" : "probe.enum_single_done", to - from); r.count("probe.snap_load_ok", ok); r.count("probe.snap_load_failed_cleanly", failed);
    r.ev("snap_enum %s/%s %s [%llu,%llu) of %llu comp=%s filt=%s flags=0x%lx ok=%llu failed=%llu results=%016llx", s.kind.c_str(), s.name.c_str(), pairs ? "pair" : "single", (unsigned long long)from, (unsigned long long)to, (unsigned long long)total, L.comp.c_str(), L.filt.c_str(), L.flags, (unsigned long long)ok, (unsigned long long)failed, (unsigned long long)res.h);
    return true;
  }
  return false;
}

}  // namespace hwsim
