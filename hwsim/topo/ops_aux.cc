// Distances (C13), memory attributes (C14), CPU kinds (C15): ops, reference models, model-vs-dump comparison.
#include "world.h"
#include <functional>
#include <set>
#include <algorithm>

namespace hwsim {

#define K_FROM (HWLOC_DISTANCES_KIND_FROM_OS | HWLOC_DISTANCES_KIND_FROM_USER)
#define K_VALUE (HWLOC_DISTANCES_KIND_VALUE_LATENCY | HWLOC_DISTANCES_KIND_VALUE_BANDWIDTH | HWLOC_DISTANCES_KIND_VALUE_HOPS)
#define K_ALL (K_FROM | K_VALUE | HWLOC_DISTANCES_KIND_HETEROGENEOUS_TYPES)

static hwloc_obj_t by_gp(const Replica &R, uint64_t gp) { const ObjRec *o = R.last.find(gp); return o ? o->ptr : nullptr; }

// ------------------------------------------------------------------------------------------------ models from the dump at load
void models_init(World &w, int ri) {
  Replica &R = w.r[ri]; const Dump &d = R.last;
  R.user_dists.clear();
  for (auto &x : d.dists) { DistModel m; m.name = x.name; m.has_name = x.has_name; m.kind = x.kind; m.objs = x.objs; m.types = x.types; m.values = x.values; R.user_dists.push_back(m); }
  R.dists_tracked = d.have_aux && !(R.flags & HWLOC_TOPOLOGY_FLAG_NO_DISTANCES);
  R.memattrs.clear(); R.mem_tracked = d.have_aux && !(R.flags & HWLOC_TOPOLOGY_FLAG_NO_MEMATTRS);
  for (auto &a : d.memattrs) {
    if (a.id < 2) continue;   // Capacity / Locality are computed, judged separately
    MemAttrModel m; m.name = a.name; m.flags = a.flags; bool ok = true;
    for (auto &t : a.targets) {
      if (t.has_value) m.noinit[t.gp] = t.value;
      std::vector<MemInitModel> v;
      for (auto &i : t.inits) { MemInitModel mi; mi.value = i.value; if (i.is_cs) { mi.cs = i.cs; for (auto &o : v) if (!o.is_obj && (o.cs.intersects(mi.cs) || o.cs.empty() || mi.cs.empty())) ok = false; } else { mi.is_obj = true; mi.objgp = i.loc == "obj:NULL" ? ~0ULL : strtoull(i.loc.c_str() + 4, nullptr, 10); if (mi.objgp == ~0ULL) ok = false; } v.push_back(mi); }
      if (!v.empty()) m.tg[t.gp] = v;
    }
    if (ok) R.memattrs[a.id] = m;   // attributes whose stored initiators are not pairwise disjoint are outside the statement's domain: not modelled
  }
  R.kind_regs.clear(); R.kinds_tracked = d.have_aux && !(R.flags & HWLOC_TOPOLOGY_FLAG_NO_CPUKINDS);
  for (auto &k : d.kinds) { KindReg g; g.cs = k.cs; g.forced = -2; g.infos = k.infos; R.kind_regs.push_back(g); }
}

// ------------------------------------------------------------------------------------------------ restrict follows the objects
void models_after_restrict(World &w, int ri, const Dump &B, const Dump &A) {
  Replica &R = w.r[ri]; (void)B;
  std::vector<DistModel> nd;
  for (auto &e : R.user_dists) {
    std::vector<size_t> keep; for (size_t j = 0; j < e.objs.size(); j++) if (A.find(e.objs[j])) keep.push_back(j);
    if (keep.size() < 2) continue;
    DistModel x = e; x.objs.clear(); x.types.clear(); x.values.clear();
    for (size_t a : keep) { x.objs.push_back(e.objs[a]); x.types.push_back(e.types[a]); }
    for (size_t a : keep) for (size_t b : keep) x.values.push_back(e.values[a * e.objs.size() + b]);
    nd.push_back(x);
  }
  if (nd.size() != R.user_dists.size()) w.run->count("probe.dist_dropped_below_2");
  R.user_dists = nd;
  for (auto &am : R.memattrs) {
    MemAttrModel &m = am.second;
    for (auto it = m.noinit.begin(); it != m.noinit.end();) { if (!A.find(it->first)) it = m.noinit.erase(it); else ++it; }
    for (auto it = m.tg.begin(); it != m.tg.end();) {
      bool gone = !A.find(it->first);
      if (!gone) { std::vector<MemInitModel> v; for (auto &i : it->second) { MemInitModel x = i; if (!x.is_obj) { x.cs = x.cs & A.tcs; if (x.cs.empty()) continue; } else if (!A.find(x.objgp)) continue; v.push_back(x); } it->second = v; if (v.empty()) gone = true; }
      if (gone) it = m.tg.erase(it); else ++it;
    }
  }
  for (auto &g : R.kind_regs) g.cs = g.cs & A.tcs;
}

// ------------------------------------------------------------------------------------------------ model vs what the topology reports
static void check_kinds(World &w, int ri, const char *ctx) {
  Replica &R = w.r[ri]; const Dump &d = R.last;
  // model partition: PUs grouped by the set of registrations covering them
  std::map<std::vector<int>, BSet> groups; BSet all; for (auto &g : R.kind_regs) all = all | g.cs;
  for (unsigned pu : all.elems()) { std::vector<int> sig; for (size_t i = 0; i < R.kind_regs.size(); i++) if (R.kind_regs[i].cs.has(pu)) sig.push_back((int)i); groups[sig].add(pu); }
  std::set<BSet> mg, gg; for (auto &g : groups) mg.insert(g.second);
  BSet un; size_t idx = 0; bool allm1 = true, perm = true;
  for (auto &k : d.kinds) {
    if (k.cs.empty()) viol0(w, "C15", "kinds.empty", "%s: kind %zu has an empty cpuset", ctx, idx);
    if (k.cs.intersects(un)) viol0(w, "C15", "kinds.overlap", "%s: kind %zu overlaps an earlier kind", ctx, idx);
    un = un | k.cs; gg.insert(k.cs);
    if (k.eff != -1) allm1 = false; if (k.eff != (int)idx) perm = false;
    // infos: every pair of every covering registration, no exact duplicate
    std::set<std::pair<std::string, std::string>> gi, ei; for (auto &p : k.infos) if (!gi.insert(p).second) viol0(w, "C15", "kinds.duplicate_info", "%s: kind %zu carries the info pair %s=%s twice", ctx, idx, p.first.c_str(), p.second.c_str());
    long pu0 = k.cs.first(); for (auto &g : R.kind_regs) if (pu0 >= 0 && g.cs.has((unsigned)pu0)) for (auto &p : g.infos) ei.insert(p);
    if (gi != ei) viol0(w, "C15", "kinds.infos", "%s: kind %zu (cpuset %s) carries %zu distinct info pairs, the registrations covering it carry %zu", ctx, idx, k.cs.str().c_str(), gi.size(), ei.size());
    idx++;
  }
  if (mg != gg) viol0(w, "C15", "kinds.partition", "%s: the kinds do not partition the registered PUs as the registrations imply (model %zu kinds over %s, hwloc %zu kinds over %s)", ctx, mg.size(), all.str().c_str(), gg.size(), un.str().c_str());
  if (!d.kinds.empty() && !allm1 && !perm) viol0(w, "C15", "kinds.efficiency", "%s: efficiencies are neither all -1 nor 0..nr-1 in index order", ctx);
  // consistency with forced efficiencies when all known and distinct (forced value of a kind = that of the latest covering registration)
  std::vector<int> forced; std::set<int> distinct; bool known = true;
  for (auto &k : d.kinds) { long pu0 = k.cs.first(); int f = -1; for (auto &g : R.kind_regs) if (pu0 >= 0 && g.cs.has((unsigned)pu0)) f = g.forced; forced.push_back(f); if (f < 0) known = false; distinct.insert(f); }
  if (d.kinds.size() >= 2 && known && distinct.size() == d.kinds.size()) {
    w.run->count("probe.kinds_forced_ranking_checked");
    if (!perm) viol0(w, "C15", "kinds.forced_ranking", "%s: all forced efficiencies are known and distinct but the kinds are not ranked", ctx);
    for (size_t k = 1; k < forced.size(); k++) if (forced[k - 1] >= forced[k]) viol0(w, "C15", "kinds.forced_ranking", "%s: ranking is not consistent with the forced efficiencies", ctx);
  }
}

static std::string minit_key(const MemInitModel &i) { return i.is_obj ? "obj:" + std::to_string(i.objgp) : "cs:" + i.cs.str(); }

void check_models(World &w, int ri, const char *ctx) {
  Replica &R = w.r[ri]; const Dump &d = R.last;
  if (!d.have_aux) return;
  if (R.dists_tracked) {
    const char *own = R.adopted ? "C19" : "C13";
    if (d.dists.size() != R.user_dists.size()) viol0(w, own, "dist.list", "%s: the topology reports %zu distances structures, the reference list holds %zu", ctx, d.dists.size(), R.user_dists.size());
    for (size_t i = 0; i < d.dists.size(); i++) {
      const DistRec &g = d.dists[i]; const DistModel &m = R.user_dists[i];
      if (g.has_name != m.has_name || g.name != m.name) viol0(w, own, "dist.name", "%s: structure %zu is named '%s', expected '%s'", ctx, i, g.has_name ? g.name.c_str() : "(null)", m.has_name ? m.name.c_str() : "(null)");
      if (g.kind != m.kind) viol0(w, own, "dist.kind", "%s: structure %zu has kind 0x%lx, expected 0x%lx", ctx, i, g.kind, m.kind);
      if (g.objs != m.objs) viol0(w, own, "dist.objs", "%s: structure %zu references other objects than the survivors of those it was added with", ctx, i);
      if (g.values != m.values) viol0(w, own, "dist.values", "%s: structure %zu does not hold the exact sub-matrix of its surviving objects", ctx, i);
    }
  }
  if (R.mem_tracked) {
    const char *own = R.adopted ? "C19" : "C14";
    for (auto &am : R.memattrs) {
      const MemAttrModel &m = am.second; const MemattrRec *g = nullptr; for (auto &x : d.memattrs) if (x.id == am.first) g = &x;
      if (!g) viol0(w, own, "memattr.missing", "%s: attribute %u ('%s') is gone", ctx, am.first, m.name.c_str());
      if (g->name != m.name || g->flags != m.flags) viol0(w, own, "memattr.identity", "%s: attribute %u is '%s' flags 0x%lx, registered as '%s' flags 0x%lx", ctx, am.first, g->name.c_str(), g->flags, m.name.c_str(), m.flags);
      std::map<uint64_t, const MemTarget *> gt; for (auto &t : g->targets) gt[t.gp] = &t;
      if (m.flags & HWLOC_MEMATTR_FLAG_NEED_INITIATOR) {
        if (gt.size() != m.tg.size()) viol0(w, own, "memattr.targets", "%s: attribute '%s' has %zu targets, %zu were stored and survive", ctx, m.name.c_str(), gt.size(), m.tg.size());
        for (auto &mt : m.tg) {
          auto it = gt.find(mt.first); if (it == gt.end()) viol0(w, own, "memattr.targets", "%s: attribute '%s' lost target gp=%llu", ctx, m.name.c_str(), (unsigned long long)mt.first);
          std::vector<std::pair<std::string, uint64_t>> a, b; for (auto &i : it->second->inits) a.push_back({i.loc, i.value}); for (auto &i : mt.second) b.push_back({minit_key(i), i.value});
          std::sort(a.begin(), a.end()); std::sort(b.begin(), b.end());
          if (a != b) { std::string sa, sb; for (auto &x : a) sa += x.first + "=" + std::to_string(x.second) + " "; for (auto &x : b) sb += x.first + "=" + std::to_string(x.second) + " "; viol0(w, own, "memattr.initiators", "%s: attribute '%s' target gp=%llu reports initiators [%s], stored and surviving [%s]", ctx, m.name.c_str(), (unsigned long long)mt.first, sa.c_str(), sb.c_str()); }
        }
      } else {
        if (gt.size() != m.noinit.size()) viol0(w, own, "memattr.targets", "%s: attribute '%s' has %zu targets, %zu were stored and survive", ctx, m.name.c_str(), gt.size(), m.noinit.size());
        for (auto &mt : m.noinit) { auto it = gt.find(mt.first); if (it == gt.end() || !it->second->has_value || it->second->value != mt.second) viol0(w, own, "memattr.value", "%s: attribute '%s' target gp=%llu does not report the last stored value %llu", ctx, m.name.c_str(), (unsigned long long)mt.first, (unsigned long long)mt.second); }
      }
    }
    // Capacity and Locality always equal local memory and cpuset weight
    for (auto &x : d.memattrs) if (x.id < 2) for (auto &t : x.targets) { const ObjRec *o = d.find(t.gp); if (!o) continue; uint64_t exp = x.id == 0 ? o->local_memory : (uint64_t)o->cs.weight(); if (!t.has_value || t.value != exp) viol0(w, own, "memattr.capacity_locality", "%s: %s of NUMA node gp=%llu is %llu, expected %llu", ctx, x.name.c_str(), (unsigned long long)t.gp, (unsigned long long)t.value, (unsigned long long)exp); }
  }
  if (R.kinds_tracked) check_kinds(w, ri, ctx);
}

// ------------------------------------------------------------------------------------------------ ops
static const unsigned long KINDS[] = {HWLOC_DISTANCES_KIND_FROM_USER | HWLOC_DISTANCES_KIND_VALUE_LATENCY, HWLOC_DISTANCES_KIND_FROM_OS | HWLOC_DISTANCES_KIND_VALUE_BANDWIDTH, HWLOC_DISTANCES_KIND_VALUE_HOPS,
                                      HWLOC_DISTANCES_KIND_FROM_USER, HWLOC_DISTANCES_KIND_FROM_USER | HWLOC_DISTANCES_KIND_VALUE_BANDWIDTH, HWLOC_DISTANCES_KIND_FROM_USER | HWLOC_DISTANCES_KIND_VALUE_HOPS,
                                      HWLOC_DISTANCES_KIND_FROM_USER | HWLOC_DISTANCES_KIND_FROM_OS, HWLOC_DISTANCES_KIND_VALUE_LATENCY | HWLOC_DISTANCES_KIND_VALUE_HOPS, 1UL << 9, HWLOC_DISTANCES_KIND_FROM_OS | HWLOC_DISTANCES_KIND_VALUE_LATENCY};
static const int DTYPES[] = {HWLOC_OBJ_NUMANODE, HWLOC_OBJ_CORE, HWLOC_OBJ_PU, HWLOC_OBJ_PACKAGE, HWLOC_OBJ_PCI_DEVICE, HWLOC_OBJ_OS_DEVICE, HWLOC_OBJ_GROUP, HWLOC_OBJ_L3CACHE};
static const char *DNAMES[] = {"n1", "NVLinkBandwidth", nullptr, "n 2&<>"};

static bool dmatch(const DistModel &e, const char *name, int type, unsigned long kind) {
  if (name && (!e.has_name || e.name != name)) return false;
  bool hetero = e.kind & HWLOC_DISTANCES_KIND_HETEROGENEOUS_TYPES;
  if (type >= 0 && (hetero || e.types.empty() || type != e.types[0])) return false;
  unsigned long kf = kind & K_FROM, kv = kind & K_VALUE; if (kf && !(kf & e.kind)) return false; if (kv && !(kv & e.kind)) return false; return true;
}

static bool is_switch(hwloc_obj_t o) { return o && o->subtype && !strcmp(o->subtype, "NVSwitch"); }

static void dist_ops(World &w, const Op &o, int ri) {
  Run &r = *w.run; Replica &R = w.r[ri]; hwloc_topology_t t = R.t; const std::string &k = o.kind; const char *own = R.adopted ? "C19" : "C13";
  if (k == "dist_add") {
    unsigned long kind = KINDS[o.u("kind") % 10]; const char *nm = DNAMES[o.u("name") % 4]; unsigned long cflags = o.u("cf") % 15 == 0 ? 4 : 0;
    bool kind_ok = !(kind & ~K_ALL) && __builtin_popcountl(kind & K_FROM) <= 1 && __builtin_popcountl(kind & K_VALUE) <= 1;
    errno = 0; hwloc_distances_add_handle_t h = hwloc_distances_add_create(t, nm, kind, cflags); int e = errno;
    r.ev("dist_add r%d create kind=0x%lx cf=%lu -> %s e=%d", ri, kind, cflags, h ? "handle" : "NULL", h ? 0 : e);
    if (R.adopted) { if (h) viol0(w, "C19", "shm.modify_not_refused", "distances_add_create on an adopted topology returned %p errno %d", h, e); return; }
    if (!kind_ok || cflags) { r.count("probe.dist_add_rejected"); if (h || e != EINVAL) viol0(w, own, "dist.invalid_accepted", "distances_add_create(kind 0x%lx, flags %lu) returned %p errno %d, expected NULL/EINVAL", kind, cflags, h, e); return; }
    if (!h) viol0(w, own, "dist.valid_refused", "valid distances_add_create(kind 0x%lx) failed, errno %d", kind, e);
    // objects: homogeneous or mixed subsets, the rejected sizes 0 and 1 included
    int want = (int)(o.u("n") % 7); bool mixed = o.u("mix") % 4 == 0; int ty0 = DTYPES[o.u("ty") % 8]; Rng g(o.u("vs"));
    // Groups on several levels are the one type whose objects are looked up level by level (by gp_index) after dup / XML import / restrict
    if (!mixed && o.u("mix") % 3 == 1 && hwloc_get_type_depth(t, HWLOC_OBJ_GROUP) == HWLOC_TYPE_DEPTH_MULTIPLE) { ty0 = HWLOC_OBJ_GROUP; r.count("probe.dist_over_multi_level_groups"); }
    std::vector<hwloc_obj_t> objs;
    for (int i = 0; i < want; i++) { int ty = mixed ? DTYPES[g.below(8)] : ty0; hwloc_obj_t x = sel_type(R, g.next(), ty); if (!x) continue; if (std::find(objs.begin(), objs.end(), x) == objs.end()) objs.push_back(x); }
    unsigned nb = (unsigned)objs.size(); std::vector<hwloc_uint64_t> vals((size_t)nb * nb + 1);
    int vmode = (int)(o.u("vm") % 3);
    for (unsigned a = 0; a < nb; a++) for (unsigned b = 0; b < nb; b++) vals[a * nb + b] = vmode == 0 ? g.below(50) : vmode == 1 ? (a == b ? 10 : (a / 2 == b / 2 ? 20 : 40)) : (a == b ? 0 : g.below(3) * 25);   // random | latency-like pairs (forms groups) | sparse links
    unsigned long vflags = o.u("vf") % 15 == 0 ? 8 : 0;
    errno = 0; int rc = hwloc_distances_add_values(t, h, nb, objs.data(), vals.data(), vflags); e = errno;
    r.ev("dist_add values nb=%u vf=%lu -> %d e=%d", nb, vflags, rc, rc ? e : 0);
    if (nb < 2 || vflags) { r.count("probe.dist_add_rejected"); if (rc != -1 || e != EINVAL) viol0(w, own, "dist.invalid_accepted", "distances_add_values(nbobjs %u, flags %lu) returned %d errno %d, expected -1/EINVAL", nb, vflags, rc, e); return; }
    if (rc) viol0(w, own, "dist.valid_refused", "valid distances_add_values failed, errno %d", e);
    unsigned mf = (unsigned)(o.u("mf") % 12); unsigned long mflags = mf == 0 ? 16 : mf <= 3 ? HWLOC_DISTANCES_ADD_FLAG_GROUP : mf == 4 ? (HWLOC_DISTANCES_ADD_FLAG_GROUP | HWLOC_DISTANCES_ADD_FLAG_GROUP_INACCURATE) : 0;
    DistModel m; m.has_name = nm != nullptr; m.name = nm ? nm : ""; m.kind = kind; bool hetero = false;
    for (auto x : objs) { m.objs.push_back(x->gp_index); m.types.push_back((int)x->type); if (x->type != objs[0]->type) hetero = true; }
    m.values.assign(vals.begin(), vals.begin() + (size_t)nb * nb);
    if (hetero) m.kind |= HWLOC_DISTANCES_KIND_HETEROGENEOUS_TYPES; else m.kind &= ~(unsigned long)HWLOC_DISTANCES_KIND_HETEROGENEOUS_TYPES;
    size_t nobj_before = R.last.objs.size();
    // interleaved handles: a second structure is created after this one and committed before it, so that the list order (commit time)
    // differs from the id order (creation time)
    if (o.u("cf") % 5 == 1) {
      hwloc_obj_t p0 = sel_type(R, g.next(), HWLOC_OBJ_PU), p1 = sel_type(R, g.next(), HWLOC_OBJ_PU);
      if (p0 && p1 && p0 != p1) {
        hwloc_distances_add_handle_t hx = hwloc_distances_add_create(t, "hwsim-interleaved", HWLOC_DISTANCES_KIND_FROM_USER | HWLOC_DISTANCES_KIND_VALUE_BANDWIDTH, 0);
        hwloc_obj_t xo[2] = {p0, p1}; hwloc_uint64_t xv[4] = {0, 5 + g.below(90), 5 + g.below(90), 0};
        if (!hx || hwloc_distances_add_values(t, hx, 2, xo, xv, 0) || hwloc_distances_add_commit(t, hx, 0)) viol0(w, own, "dist.valid_refused", "valid two-PU structure created while another handle is open was refused (errno %d)", errno);
        DistModel mx; mx.has_name = true; mx.name = "hwsim-interleaved"; mx.kind = HWLOC_DISTANCES_KIND_FROM_USER | HWLOC_DISTANCES_KIND_VALUE_BANDWIDTH;
        for (auto x : xo) { mx.objs.push_back(x->gp_index); mx.types.push_back((int)x->type); } mx.values.assign(xv, xv + 4);
        R.user_dists.push_back(mx); r.count("probe.dist_added"); r.count("probe.dist_handles_interleaved"); r.ev("dist_add interleaved structure committed first");
      }
    }
    errno = 0; rc = hwloc_distances_add_commit(t, h, mflags); e = errno;
    r.ev("dist_add commit mf=0x%lx -> %d e=%d", mflags, rc, rc ? e : 0);
    if (mflags & ~3UL) { r.count("probe.dist_add_rejected"); if (rc != -1 || e != EINVAL) viol0(w, own, "dist.invalid_accepted", "distances_add_commit(flags 0x%lx) returned %d errno %d, expected -1/EINVAL", mflags, rc, e); return; }
    if (rc) viol0(w, own, "dist.valid_refused", "valid distances_add_commit failed, errno %d", e);
    R.user_dists.push_back(m); r.count("probe.dist_added"); if (hetero) r.count("probe.dist_added_heterogeneous"); if (mflags) r.count("probe.dist_commit_with_grouping");
    (void)nobj_before;
    return;
  }
  if (k == "dist_get") {
    int how = (int)(o.u("how") % 4); unsigned long kind = o.u("kf") % 3 ? 0 : KINDS[o.u("kf") % 10] & (K_FROM | K_VALUE); int ty = DTYPES[o.u("ty") % 8]; const char *nm = DNAMES[o.u("name") % 2];
    int depth = 0;
    if (how == 3) { depth = hwloc_get_type_depth(t, (hwloc_obj_type_t)ty); if (depth == HWLOC_TYPE_DEPTH_UNKNOWN || depth == HWLOC_TYPE_DEPTH_MULTIPLE) { r.ev("dist_get by_depth: type without single depth"); return; } }
    std::vector<const DistModel *> exp; for (auto &e : R.user_dists) if (dmatch(e, how == 2 ? nm : nullptr, (how == 1 || how == 3) ? ty : -1, how == 2 ? 0UL : kind)) exp.push_back(&e);
    unsigned cap = o.u("cap") % 3 == 0 ? (unsigned)(o.u("cap") / 3 % (exp.size() + 1)) : 64; std::vector<struct hwloc_distances_s *> ds(65, (struct hwloc_distances_s *)nullptr); unsigned nr = cap;
    errno = 0; int rc = how == 0 ? hwloc_distances_get(t, &nr, ds.data(), kind, 0) : how == 1 ? hwloc_distances_get_by_type(t, (hwloc_obj_type_t)ty, &nr, ds.data(), kind, 0) : how == 2 ? hwloc_distances_get_by_name(t, nm, &nr, ds.data(), 0) : hwloc_distances_get_by_depth(t, depth, &nr, ds.data(), kind, 0);
    r.ev("dist_get r%d how=%d kind=0x%lx cap=%u -> %d nr=%u", ri, how, kind, cap, rc, nr);
    r.count("probe.dist_get"); if (cap < exp.size()) r.count("probe.dist_get_short_array");
    if (!R.dists_tracked) { for (unsigned i = 0; i < nr && i < cap; i++) if (ds[i]) hwloc_distances_release(t, ds[i]); return; }
    if (rc) viol0(w, own, "dist.get_failed", "distances_get (how %d) failed, errno %d", how, errno);
    if (nr != exp.size()) { for (unsigned i = 0; i < nr && i < cap; i++) if (ds[i]) hwloc_distances_release(t, ds[i]); viol0(w, own, "dist.get_nr", "distances_get (how %d, kind 0x%lx, type %s, name %s): *nr = %u, %zu structures match the filters", how, kind, hwloc_obj_type_string((hwloc_obj_type_t)ty), how == 2 ? nm : "-", nr, exp.size()); }
    std::string bad;
    for (unsigned i = 0; i < nr && i < cap && bad.empty(); i++) {
      struct hwloc_distances_s *d = ds[i]; const DistModel &e = *exp[i];
      if (!d) { bad = "NULL entry"; break; }
      if (d->nbobjs != e.objs.size()) bad = "number of objects";
      else { for (unsigned j = 0; j < d->nbobjs; j++) if (!d->objs[j] || d->objs[j] != by_gp(R, e.objs[j])) { bad = "an object that is not the object of this topology it was added with"; break; }
             for (unsigned j = 0; j < d->nbobjs * d->nbobjs && bad.empty(); j++) if (d->values[j] != e.values[j]) bad = "values"; }
      if (bad.empty() && d->kind != e.kind) bad = "kind";
      const char *gn = hwloc_distances_get_name(t, d); if (bad.empty() && ((gn != nullptr) != e.has_name || (gn && e.name != gn))) bad = "name";
    }
    for (unsigned i = 0; i < nr && i < cap; i++) if (ds[i]) hwloc_distances_release(t, ds[i]);
    if (!bad.empty()) viol0(w, own, "dist.get_content", "distances_get (how %d) returned a structure with wrong %s", how, bad.c_str());
    return;
  }
  if (k == "dist_remove") {
    int which = (int)(o.u("w") % 3);
    if (which == 0 && o.u("all") % 4 == 0) { errno = 0; int rc = hwloc_distances_remove(t); int e = errno; r.ev("dist_remove all r%d -> %d", ri, rc); if (R.adopted) { if (rc == 0) viol0(w, "C19", "shm.modify_not_refused", "distances_remove on an adopted topology returned %d errno %d", rc, e); return; } if (rc) viol0(w, own, "dist.remove_failed", "distances_remove failed"); R.user_dists.clear(); r.count("probe.dist_removed"); return; }
    if (which == 1) {
      int ty = DTYPES[o.u("ty") % 8]; int depth = hwloc_get_type_depth(t, (hwloc_obj_type_t)ty); if (depth == HWLOC_TYPE_DEPTH_UNKNOWN || depth == HWLOC_TYPE_DEPTH_MULTIPLE || o.u("idx") % 7 == 0) {
        // a depth that designates no level (type absent or at several depths, beyond the last level, far below the special depths) targets nothing:
        // whatever the call returns, the list must be as it was (the reference list is left alone; check_models compares after the op)
        int bad = (depth == HWLOC_TYPE_DEPTH_UNKNOWN || depth == HWLOC_TYPE_DEPTH_MULTIPLE) ? depth : (o.u("idx") % 2 ? hwloc_topology_get_depth(t) + 2 : -100);
        if (R.adopted) { r.ev("dist_remove by_depth: invalid depth skipped on an adopted replica"); return; }
        unsigned n0 = 0, n1 = 0; hwloc_distances_get(t, &n0, nullptr, 0, 0);
        errno = 0; int rc = hwloc_distances_remove_by_depth(t, bad); int e = errno; hwloc_distances_get(t, &n1, nullptr, 0, 0);
        r.ev("dist_remove by_depth invalid depth %d r%d -> %d e=%d", bad, ri, rc, rc ? e : 0); r.count("probe.dist_remove_invalid_depth");
        if (n0 != n1) viol0(w, own, "dist.remove_invalid_depth", "distances_remove_by_depth(%d), a depth that designates no level, returned %d and removed %u of %u structures", bad, rc, n0 - n1, n0);
        return; }
      errno = 0; int rc = hwloc_distances_remove_by_depth(t, depth); int e = errno; r.ev("dist_remove by_depth %s r%d -> %d", hwloc_obj_type_string((hwloc_obj_type_t)ty), ri, rc);
      if (R.adopted) { if (rc == 0) viol0(w, "C19", "shm.modify_not_refused", "distances_remove_by_depth on an adopted topology returned %d errno %d", rc, e); return; }
      if (rc) viol0(w, own, "dist.remove_failed", "distances_remove_by_depth failed");
      std::vector<DistModel> nd; for (auto &e2 : R.user_dists) if ((e2.kind & HWLOC_DISTANCES_KIND_HETEROGENEOUS_TYPES) || e2.types.empty() || e2.types[0] != ty) nd.push_back(e2); R.user_dists = nd; r.count("probe.dist_removed"); return;
    }
    unsigned nr = 0; hwloc_distances_get(t, &nr, nullptr, 0, 0); if (!nr) { r.ev("dist_remove: nothing to remove"); return; }
    std::vector<struct hwloc_distances_s *> ds(nr); unsigned n2 = nr; if (hwloc_distances_get(t, &n2, ds.data(), 0, 0) || n2 != nr) viol0(w, own, "dist.get_failed", "distances_get before release_remove failed");
    // the victim is chosen by content, not by list position: an XML-reloaded twin holds the same structures in another order (homogeneous first)
    std::vector<std::pair<std::string, unsigned>> keyed; for (unsigned i = 0; i < nr; i++) { const char *nm0 = hwloc_distances_get_name(t, ds[i]); std::string key = std::string(nm0 ? nm0 : "\x01") + "|" + std::to_string(ds[i]->kind) + "|"; for (unsigned a = 0; a < ds[i]->nbobjs; a++) key += std::to_string(ds[i]->objs[a] ? (unsigned long long)ds[i]->objs[a]->gp_index : 0ULL) + ","; key += "|"; for (unsigned a = 0; a < ds[i]->nbobjs * ds[i]->nbobjs; a++) key += std::to_string((unsigned long long)ds[i]->values[a]) + ","; keyed.push_back({key, i}); }
    std::stable_sort(keyed.begin(), keyed.end());
    unsigned v = keyed[o.u("idx") % nr].second; for (unsigned i = 0; i < nr; i++) if (i != v) hwloc_distances_release(t, ds[i]);
    errno = 0; int rc = hwloc_distances_release_remove(t, ds[v]); int e = errno; r.ev("dist_remove release_remove #%u r%d -> %d", v, ri, rc);
    if (R.adopted) { if (rc == 0) viol0(w, "C19", "shm.modify_not_refused", "distances_release_remove on an adopted topology returned %d errno %d", rc, e); if (rc) hwloc_distances_release(t, ds[v]); return; }
    if (rc) viol0(w, own, "dist.remove_failed", "distances_release_remove failed, errno %d", e);
    if (R.dists_tracked && v < R.user_dists.size()) R.user_dists.erase(R.user_dists.begin() + v);
    r.count("probe.dist_removed");
    return;
  }
  if (k == "dist_transform") {
    unsigned nr = 0; hwloc_distances_get(t, &nr, nullptr, 0, 0); if (!nr) { r.ev("dist_transform: no distances"); return; }
    std::vector<struct hwloc_distances_s *> ds(nr); unsigned n2 = nr; hwloc_distances_get(t, &n2, ds.data(), 0, 0);
    unsigned v = (unsigned)(o.u("idx") % nr); struct hwloc_distances_s *d = ds[v]; int tr = (int)(o.u("tr") % 4);
    // optionally punch NULL holes first, as a consumer does before REMOVE_NULL
    if (o.u("holes") % 3 == 0 && d->nbobjs > 2) { unsigned hsel = (unsigned)(o.u("holes") / 3 % d->nbobjs); d->objs[hsel] = nullptr; }
    std::vector<hwloc_obj_t> bobj(d->objs, d->objs + d->nbobjs); std::vector<hwloc_uint64_t> bval(d->values, d->values + (size_t)d->nbobjs * d->nbobjs); unsigned bn = d->nbobjs;
    errno = 0; int rc = hwloc_distances_transform(t, d, (enum hwloc_distances_transform_e)tr, nullptr, 0);
    r.ev("dist_transform r%d #%u tr=%d -> %d nb %u->%u", ri, v, tr, rc, bn, d->nbobjs); r.count("probe.dist_transform");
    std::string bad;
    if (rc == 0) {
      r.count("probe.dist_transform_ok");
      for (unsigned a = 0; a < bn && bad.empty(); a++) {
        if (!bobj[a] || is_switch(bobj[a])) continue;
        unsigned na = ~0u; for (unsigned x = 0; x < d->nbobjs; x++) if (d->objs[x] == bobj[a]) na = x;
        if (na == ~0u) { bad = "lost the non-switch object " + std::string(hwloc_obj_type_string(bobj[a]->type)) + " gp=" + std::to_string(bobj[a]->gp_index); break; }
        if (tr == HWLOC_DISTANCES_TRANSFORM_REMOVE_NULL || tr == HWLOC_DISTANCES_TRANSFORM_MERGE_SWITCH_PORTS)
          for (unsigned b = 0; b < bn; b++) { if (!bobj[b] || is_switch(bobj[b])) continue; unsigned nb2 = ~0u; for (unsigned x = 0; x < d->nbobjs; x++) if (d->objs[x] == bobj[b]) nb2 = x; if (nb2 != ~0u && d->values[na * d->nbobjs + nb2] != bval[a * bn + b]) { bad = "changed the value between two non-switch objects"; break; } }
      }
      bool hadswitch = false; for (auto x : bobj) if (is_switch(x)) hadswitch = true; if (hadswitch) r.count("probe.dist_transform_with_switch");
    }
    for (unsigned i = 0; i < nr; i++) hwloc_distances_release(t, ds[i]);
    if (!bad.empty()) viol0(w, "C13", "dist.transform", "transform %d %s", tr, bad.c_str());
    return;
  }
}

static const char *MNAMES[] = {"A1", "A2", "Bandwidth", "A3 &<x>"};
static const unsigned long MFLAGS[] = {HWLOC_MEMATTR_FLAG_HIGHER_FIRST, HWLOC_MEMATTR_FLAG_LOWER_FIRST, HWLOC_MEMATTR_FLAG_HIGHER_FIRST | HWLOC_MEMATTR_FLAG_NEED_INITIATOR, HWLOC_MEMATTR_FLAG_LOWER_FIRST | HWLOC_MEMATTR_FLAG_NEED_INITIATOR, 0,
                                       HWLOC_MEMATTR_FLAG_HIGHER_FIRST | HWLOC_MEMATTR_FLAG_LOWER_FIRST, 1UL << 7 | HWLOC_MEMATTR_FLAG_LOWER_FIRST, HWLOC_MEMATTR_FLAG_NEED_INITIATOR};

static void mem_ops(World &w, const Op &o, int ri) {
  Run &r = *w.run; Replica &R = w.r[ri]; hwloc_topology_t t = R.t; const std::string &k = o.kind; const char *own = R.adopted ? "C19" : "C14";
  if (!R.mem_tracked && k != "mem_local") { r.ev("%s skipped: memattrs not tracked", k.c_str()); return; }
  if (k == "mem_register") {
    const char *nm = MNAMES[o.u("name") % 4]; unsigned long fl = MFLAGS[o.u("fl") % 8]; hwloc_memattr_id_t id = 9999;
    errno = 0; int rc = hwloc_memattr_register(t, nm, fl, &id); int e = errno; r.ev("mem_register r%d %s fl=0x%lx -> %d e=%d", ri, nm, fl, rc, rc ? e : 0);
    if (R.adopted) { if (rc == 0) viol0(w, "C19", "shm.modify_not_refused", "memattr_register on an adopted topology returned %d errno %d", rc, e); return; }
    bool fl_ok = !(fl & ~7UL) && (!!(fl & HWLOC_MEMATTR_FLAG_HIGHER_FIRST) != !!(fl & HWLOC_MEMATTR_FLAG_LOWER_FIRST));
    bool dupname = false; for (auto &a : R.last.memattrs) if (a.name == nm) dupname = true; for (auto &a : R.memattrs) if (a.second.name == nm) dupname = true;
    if (!fl_ok) { r.count("probe.memattr_register_rejected"); if (rc != -1 || e != EINVAL) viol0(w, own, "memattr.register_flags", "memattr_register(flags 0x%lx) returned %d errno %d, expected -1/EINVAL", fl, rc, e); }
    else if (dupname) { r.count("probe.memattr_register_rejected"); if (rc != -1 || e != EBUSY) viol0(w, own, "memattr.register_duplicate", "memattr_register of the existing name '%s' returned %d errno %d, expected -1/EBUSY", nm, rc, e); }
    else { if (rc) viol0(w, own, "memattr.register_failed", "valid memattr_register failed, errno %d", e); MemAttrModel m; m.name = nm; m.flags = fl; R.memattrs[id] = m; r.count("probe.memattr_registered"); }
    return;
  }
  if (R.memattrs.empty()) { r.ev("%s: no modelled attribute", k.c_str()); return; }
  // more than half of the memattr ops of a run go to one attribute (the first modelled one: Bandwidth, which needs initiators), so that it collects
  // several targets with several initiators each - removing one target out of three, shrinking one initiator out of two are the interesting cases
  auto it = R.memattrs.begin(); std::advance(it, o.u("attr") < 55 ? 0 : o.u("attr") % R.memattrs.size()); hwloc_memattr_id_t id = it->first; MemAttrModel &A = it->second;
  bool need = A.flags & HWLOC_MEMATTR_FLAG_NEED_INITIATOR, higher = A.flags & HWLOC_MEMATTR_FLAG_HIGHER_FIRST;
  if (k == "mem_set") {
    hwloc_obj_t node = sel_type(R, o.u("node"), HWLOC_OBJ_NUMANODE); if (!node) return; uint64_t val = 1 + o.u("val") % 5;   // few values => ties
    struct hwloc_location loc, *lp = nullptr; MemInitModel key; hwloc_bitmap_t tmp = nullptr; int im = (int)(o.u("im") % 8); bool have = false;
    if (need ? im != 0 : im == 0) {
      // initiators per target are kept pairwise disjoint (the case the statement defines): cpusets of Cores (or PUs), or the Core objects themselves
      hwloc_obj_t core = sel_type(R, o.u("init"), HWLOC_OBJ_CORE); if (!core || !core->cpuset || hwloc_bitmap_iszero(core->cpuset)) core = sel_type(R, o.u("init"), HWLOC_OBJ_PU);
      if (core) {
        if (o.u("ik") % 3) { loc.type = HWLOC_LOCATION_TYPE_CPUSET; tmp = hwloc_bitmap_dup(core->cpuset); loc.location.cpuset = tmp; key.cs = BSet::from(core->cpuset); }
        else { loc.type = HWLOC_LOCATION_TYPE_OBJECT; loc.location.object = core; key.is_obj = true; key.objgp = core->gp_index; }
        lp = &loc; have = true;
      }
    }
    // disjointness guard against entries already stored for this target
    if (have && !key.is_obj) { auto ti = A.tg.find(node->gp_index); if (ti != A.tg.end()) for (auto &x : ti->second) if (!x.is_obj && x.cs != key.cs && x.cs.intersects(key.cs)) { if (tmp) hwloc_bitmap_free(tmp); r.ev("mem_set skipped: initiator would overlap a stored one"); return; } }
    errno = 0; int rc = hwloc_memattr_set_value(t, id, node, lp, 0, val); int e = errno; if (tmp) hwloc_bitmap_free(tmp);
    r.ev("mem_set r%d attr=%u node=%llu init=%s val=%llu -> %d e=%d", ri, id, (unsigned long long)node->gp_index, !have ? "-" : key.is_obj ? "obj" : "cs", (unsigned long long)val, rc, rc ? e : 0);
    if (R.adopted) { if (rc == 0) viol0(w, "C19", "shm.modify_not_refused", "memattr_set_value on an adopted topology returned %d errno %d", rc, e); return; }
    if (need && !lp) { if (rc != -1 || e != EINVAL) viol0(w, own, "memattr.set_without_initiator", "set_value without the required initiator returned %d errno %d", rc, e); return; }
    if (rc) viol0(w, own, "memattr.set_failed", "valid memattr_set_value failed, errno %d", e);
    if (need) { key.value = val; auto &v = A.tg[node->gp_index]; bool found = false; for (auto &x : v) if (x.is_obj == key.is_obj && (key.is_obj ? x.objgp == key.objgp : x.cs == key.cs)) { x.value = val; found = true; } if (!found) v.push_back(key); r.count(key.is_obj ? "probe.memattr_set_obj_initiator" : "probe.memattr_set_cpuset_initiator"); }
    else { A.noinit[node->gp_index] = val; r.count("probe.memattr_set_noinit"); }
    return;
  }
  if (k == "mem_query") {
    r.count("probe.memattr_query");
    auto q_value = [&]() {
    // get_value for every stored entry, cpuset initiators also queried by a strict subset
    if (!need) for (auto &tv : A.noinit) { hwloc_obj_t node = by_gp(R, tv.first); if (!node) continue; hwloc_uint64_t v = 77; int rc = hwloc_memattr_get_value(t, id, node, nullptr, 0, &v); if (rc || v != tv.second) viol0(w, own, "memattr.get_value", "get_value('%s', node gp=%llu) returned %d value %llu, last stored %llu", A.name.c_str(), (unsigned long long)tv.first, rc, (unsigned long long)v, (unsigned long long)tv.second); }
    else for (auto &tv : A.tg) { hwloc_obj_t node = by_gp(R, tv.first); if (!node) continue;
      for (auto &iv : tv.second) { struct hwloc_location loc; hwloc_bitmap_t b = nullptr;
        if (!iv.is_obj) { BSet q = iv.cs; if (q.weight() > 1 && (o.u("sub") & 1)) q.del((unsigned)q.first()); b = q.to_hwloc(); loc.type = HWLOC_LOCATION_TYPE_CPUSET; loc.location.cpuset = b; } else { loc.type = HWLOC_LOCATION_TYPE_OBJECT; loc.location.object = by_gp(R, iv.objgp); if (!loc.location.object) continue; }
        hwloc_uint64_t v = 77; errno = 0; int rc = hwloc_memattr_get_value(t, id, node, &loc, 0, &v); int e = errno; if (b) hwloc_bitmap_free(b);
        if (rc || v != iv.value) viol0(w, own, "memattr.get_value", "get_value('%s', node gp=%llu, %s initiator) returned %d (errno %d) value %llu, last stored %llu", A.name.c_str(), (unsigned long long)tv.first, iv.is_obj ? "object" : "cpuset", rc, e, (unsigned long long)v, (unsigned long long)iv.value); } }
    };
    auto q_targets = [&]() {
    // get_targets with NULL initiator and a short array: *nr convention, exact set
    { size_t ntg = need ? A.tg.size() : A.noinit.size(); unsigned nr = 0; int rc = hwloc_memattr_get_targets(t, id, nullptr, 0, &nr, nullptr, nullptr);
      if (rc || nr != ntg) viol0(w, own, "memattr.get_targets", "get_targets('%s', nr=0) returned %d *nr=%u, %zu targets stored", A.name.c_str(), rc, nr, ntg);
      std::vector<hwloc_obj_t> objs(nr + 2); std::vector<hwloc_uint64_t> vals(nr + 2); unsigned cap = nr ? 1 + (unsigned)(o.u("cap") % (nr + 1)) : 1, nr2 = cap; rc = hwloc_memattr_get_targets(t, id, nullptr, 0, &nr2, objs.data(), vals.data());
      if (rc || nr2 != ntg) viol0(w, own, "memattr.get_targets", "get_targets('%s', array of %u) returned %d *nr=%u, %zu targets stored", A.name.c_str(), cap, rc, nr2, ntg);
      std::set<uint64_t> seen; for (unsigned i = 0; i < cap && i < nr2; i++) { if (!objs[i] || !(need ? A.tg.count(objs[i]->gp_index) : A.noinit.count(objs[i]->gp_index)) || !seen.insert(objs[i]->gp_index).second || objs[i] != by_gp(R, objs[i]->gp_index)) viol0(w, own, "memattr.get_targets", "get_targets('%s') returned an object that is not a stored target of this topology (or twice)", A.name.c_str()); if (!need && vals[i] != A.noinit[objs[i]->gp_index]) viol0(w, own, "memattr.get_targets", "get_targets('%s') returned another value than stored", A.name.c_str()); } }
    };
    auto q_targets_by_init = [&]() {
    // get_targets filtered by an initiator: exactly the targets holding a value for an initiator that includes it, each with that value, slot by slot
    if (need) { hwloc_obj_t pu = sel_type(R, o.u("pu") + 7, HWLOC_OBJ_PU); if (pu) { struct hwloc_location loc; loc.type = HWLOC_LOCATION_TYPE_CPUSET; loc.location.cpuset = pu->cpuset;
        std::map<uint64_t, uint64_t> exp; for (auto &tv : A.tg) for (auto &iv : tv.second) if (!iv.is_obj && iv.cs.has(pu->os_index)) exp[tv.first] = iv.value;
        unsigned nr = 0; int rc = hwloc_memattr_get_targets(t, id, &loc, 0, &nr, nullptr, nullptr);
        if (rc || nr != exp.size()) viol0(w, own, "memattr.get_targets", "get_targets('%s', initiator PU %u, nr=0) returned %d *nr=%u, %zu targets hold a value for it", A.name.c_str(), pu->os_index, rc, nr, exp.size());
        const hwloc_uint64_t SENT = 0xfeedfacecafebeefULL; std::vector<hwloc_obj_t> objs(nr + 3, nullptr); std::vector<hwloc_uint64_t> vals(nr + 3, SENT); unsigned nr2 = nr + 2;
        rc = hwloc_memattr_get_targets(t, id, &loc, 0, &nr2, objs.data(), vals.data());
        if (rc || nr2 != exp.size()) viol0(w, own, "memattr.get_targets", "get_targets('%s', initiator PU %u, large array) returned %d *nr=%u, expected %zu", A.name.c_str(), pu->os_index, rc, nr2, exp.size());
        for (unsigned i = 0; i < nr2; i++) { auto e = objs[i] ? exp.find(objs[i]->gp_index) : exp.end(); if (e == exp.end() || vals[i] != e->second) viol0(w, own, "memattr.get_targets", "get_targets('%s', initiator PU %u): slot %u holds target gp=%llu value %llu, stored value for that target is %llu", A.name.c_str(), pu->os_index, i, objs[i] ? (unsigned long long)objs[i]->gp_index : 0ULL, (unsigned long long)vals[i], e == exp.end() ? 0ULL : (unsigned long long)e->second); }
        for (unsigned i = nr2; i < nr + 3; i++) if (vals[i] != SENT || objs[i]) viol0(w, own, "memattr.get_targets", "get_targets('%s', initiator PU %u) wrote slot %u beyond the %u entries it reports", A.name.c_str(), pu->os_index, i, nr2);
        r.count("probe.memattr_get_targets_by_initiator"); } }
    };
    auto q_best_target = [&]() {
    // best target
    if (need) { hwloc_obj_t pu = sel_type(R, o.u("pu"), HWLOC_OBJ_PU); if (pu) { struct hwloc_location loc; loc.type = HWLOC_LOCATION_TYPE_CPUSET; loc.location.cpuset = pu->cpuset;
        bool any = false; uint64_t best = 0; for (auto &tv : A.tg) for (auto &iv : tv.second) if (!iv.is_obj && iv.cs.has(pu->os_index)) { if (!any || (higher ? iv.value > best : iv.value < best)) best = iv.value; any = true; }
        hwloc_obj_t bo = nullptr; hwloc_uint64_t bv = 0; errno = 0; int rc = hwloc_memattr_get_best_target(t, id, &loc, 0, &bo, &bv); int e = errno;
        if (!any) { if (rc != -1 || e != ENOENT) viol0(w, own, "memattr.best_target", "best_target('%s') without candidate returned %d errno %d, expected -1/ENOENT", A.name.c_str(), rc, e); }
        else { bool ok = rc == 0 && bv == best && bo; if (ok) { ok = false; auto ti = A.tg.find(bo->gp_index); if (ti != A.tg.end()) for (auto &iv : ti->second) if (!iv.is_obj && iv.cs.has(pu->os_index) && iv.value == best) ok = true; } if (!ok) viol0(w, own, "memattr.best_target", "best_target('%s', PU %u) returned %d value %llu, optimum among matching entries is %llu", A.name.c_str(), pu->os_index, rc, (unsigned long long)bv, (unsigned long long)best); } } }
    else { bool any = !A.noinit.empty(); uint64_t best = 0; bool f = true; for (auto &tv : A.noinit) { if (f || (higher ? tv.second > best : tv.second < best)) best = tv.second; f = false; }
      hwloc_obj_t bo = nullptr; hwloc_uint64_t bv = 0; errno = 0; int rc = hwloc_memattr_get_best_target(t, id, nullptr, 0, &bo, &bv); int e = errno;
      if (!any) { if (rc != -1 || e != ENOENT) viol0(w, own, "memattr.best_target", "best_target('%s') without target returned %d errno %d", A.name.c_str(), rc, e); } else if (rc || bv != best || !bo || !A.noinit.count(bo->gp_index) || A.noinit[bo->gp_index] != best) viol0(w, own, "memattr.best_target", "best_target('%s') returned %d value %llu, optimum is %llu", A.name.c_str(), rc, (unsigned long long)bv, (unsigned long long)best); }
    };
    auto q_initiators = [&]() {
    // get_initiators / best_initiator of one target
    if (need && !A.tg.empty()) { auto ti = A.tg.begin(); std::advance(ti, o.u("tg") % A.tg.size()); hwloc_obj_t node = by_gp(R, ti->first); if (node) {
        unsigned nr = 0; int rc = hwloc_memattr_get_initiators(t, id, node, 0, &nr, nullptr, nullptr); if (rc || nr != ti->second.size()) viol0(w, own, "memattr.get_initiators", "get_initiators('%s', node gp=%llu) returned %d *nr=%u, %zu initiators stored", A.name.c_str(), (unsigned long long)ti->first, rc, nr, ti->second.size());
        std::vector<struct hwloc_location> ls(nr + 1); std::vector<hwloc_uint64_t> vs(nr + 1); unsigned cap = nr ? 1 + (unsigned)(o.u("cap") % nr) : 1, nr3 = cap; rc = hwloc_memattr_get_initiators(t, id, node, 0, &nr3, ls.data(), vs.data());
        if (rc || nr3 != ti->second.size()) viol0(w, own, "memattr.get_initiators", "get_initiators('%s', array of %u) returned %d *nr=%u, %zu stored", A.name.c_str(), cap, rc, nr3, ti->second.size());
        for (unsigned i = 0; i < nr3 && i < cap; i++) { bool ok = false; for (auto &iv : ti->second) { if (ls[i].type == HWLOC_LOCATION_TYPE_OBJECT ? (iv.is_obj && by_gp(R, iv.objgp) == ls[i].location.object) : (!iv.is_obj && iv.cs == BSet::from(ls[i].location.cpuset))) if (iv.value == vs[i]) ok = true; } if (!ok) viol0(w, own, "memattr.get_initiators", "get_initiators('%s') returned an entry that is not a stored initiator of this topology with its value", A.name.c_str()); }
      } }
    };
    auto q_best_initiator = [&]() {
    // best_initiator of every target, starting with a seeded one (a section of its own so that it can be the first memattr access after an invalidation);
    // the returned location must be a stored initiator of THAT target holding the optimal value
    if (need && !A.tg.empty()) { size_t n = A.tg.size(), st = o.u("tg") % n; for (size_t q = 0; q < n; q++) { auto ti = A.tg.begin(); std::advance(ti, (st + q) % n); hwloc_obj_t node = by_gp(R, ti->first); if (!node) continue; int rc;
        struct hwloc_location bl; memset(&bl, 0, sizeof bl); hwloc_uint64_t bv = 0; errno = 0; rc = hwloc_memattr_get_best_initiator(t, id, node, 0, &bl, &bv); int e = errno; uint64_t best = 0; bool f = true; for (auto &iv : ti->second) { if (f || (higher ? iv.value > best : iv.value < best)) best = iv.value; f = false; }
        if (rc || bv != best) viol0(w, own, "memattr.best_initiator", "best_initiator('%s', node gp=%llu) returned %d (errno %d) value %llu, optimum is %llu", A.name.c_str(), (unsigned long long)ti->first, rc, e, (unsigned long long)bv, (unsigned long long)best);
        bool ok = false; for (auto &iv : ti->second) { if (iv.value != best) continue; if (bl.type == HWLOC_LOCATION_TYPE_OBJECT ? (iv.is_obj && by_gp(R, iv.objgp) == bl.location.object) : (!iv.is_obj && bl.location.cpuset && iv.cs == BSet::from(bl.location.cpuset))) ok = true; }
        if (!ok) viol0(w, own, "memattr.best_initiator", "best_initiator('%s', node gp=%llu) returned a location that is not a stored initiator of that target with the optimal value %llu", A.name.c_str(), (unsigned long long)ti->first, (unsigned long long)best);
      } }
    };
    // the sections run in a seeded rotation: whichever accessor comes first after a restrict / dup / reload is the one that finds the lazy cache invalid
    { std::function<void()> secs[6] = {q_value, q_targets, q_targets_by_init, q_best_target, q_initiators, q_best_initiator}; unsigned first = (unsigned)((o.u("pu") / 7) % 6);
      if (R.aux_stale) { r.count("probe.memattr_query_right_after_restrict"); if (need && A.tg.size() >= 2) r.count(first == 5 ? "probe.memattr_best_initiator_first_after_restrict_multi_target" : "probe.memattr_other_first_after_restrict_multi_target"); if (need && !A.tg.empty() && R.aux_stale_numa) r.count("probe.memattr_query_right_after_restrict_removed_node"); R.aux_stale = false; }
      for (unsigned i = 0; i < 6; i++) secs[(first + i) % 6](); r.count(first == 5 ? "probe.memattr_best_initiator_first" : first == 3 ? "probe.memattr_best_target_first" : "probe.memattr_other_first"); }
    // by_name / name / flags; Capacity is read-only
    { hwloc_memattr_id_t id2 = 9999; const char *nm = nullptr; unsigned long fl = 0; if (hwloc_memattr_get_by_name(t, A.name.c_str(), &id2) || id2 != id || hwloc_memattr_get_name(t, id, &nm) || A.name != nm || hwloc_memattr_get_flags(t, id, &fl) || fl != A.flags) viol0(w, own, "memattr.identity", "get_by_name/get_name/get_flags disagree with the registration of '%s'", A.name.c_str());
      if (!R.adopted) { hwloc_obj_t node = sel_type(R, o.u("pu"), HWLOC_OBJ_NUMANODE); errno = 0; if (node && (hwloc_memattr_set_value(t, HWLOC_MEMATTR_ID_CAPACITY, node, nullptr, 0, 5) != -1 || errno != EINVAL)) viol0(w, own, "memattr.capacity_writable", "set_value(Capacity) did not fail with EINVAL"); } }
    return;
  }
}

static void mem_local(World &w, const Op &o, int ri) {
  Run &r = *w.run; Replica &R = w.r[ri]; hwloc_topology_t t = R.t; const Dump &d = R.last; const char *own = R.adopted ? "C19" : "C14";
  // get_local_numanode_objs: exactly the NUMA nodes whose cpuset is equal / larger / smaller as the flags select
  unsigned long fl = o.u("fl") % 9; if (fl == 8) fl = 1UL << 5; bool byobj = o.u("byobj") & 1; hwloc_obj_t lobj = sel_obj(R, o.u("o"), 1); BSet lcs = byobj ? BSet::from(lobj->cpuset) : sel_cpuset(R, (int)(o.u("mode") % 9), o.u("bits"));
  struct hwloc_location loc; hwloc_bitmap_t tmp = nullptr; if (byobj) { loc.type = HWLOC_LOCATION_TYPE_OBJECT; loc.location.object = lobj; } else { tmp = lcs.to_hwloc(); loc.type = HWLOC_LOCATION_TYPE_CPUSET; loc.location.cpuset = tmp; }
  unsigned nr = 0; errno = 0; int rc = hwloc_get_local_numanode_objs(t, &loc, &nr, nullptr, fl); int e = errno;
  r.ev("mem_local r%d fl=0x%lx %s -> %d nr=%u", ri, fl, byobj ? "obj" : lcs.str().c_str(), rc, nr); r.count("probe.local_numanodes_query");
  if (fl & ~7UL) { if (tmp) hwloc_bitmap_free(tmp); if (rc != -1 || e != EINVAL) viol0(w, own, "local_nodes.flags", "get_local_numanode_objs(flags 0x%lx) returned %d errno %d", fl, rc, e); return; }
  if (rc) { if (tmp) hwloc_bitmap_free(tmp); viol0(w, own, "local_nodes.failed", "get_local_numanode_objs failed, errno %d", e); }
  std::set<uint64_t> exp;
  for (auto &kv : d.objs) { const ObjRec &n = kv.second; if (n.type != HWLOC_OBJ_NUMANODE) continue; bool sel = (fl & HWLOC_LOCAL_NUMANODE_FLAG_ALL) || n.cs == lcs || ((fl & HWLOC_LOCAL_NUMANODE_FLAG_LARGER_LOCALITY) && lcs.subset_of(n.cs)) || ((fl & HWLOC_LOCAL_NUMANODE_FLAG_SMALLER_LOCALITY) && n.cs.subset_of(lcs)); if (sel) exp.insert(n.gp); }
  std::vector<hwloc_obj_t> nodes(nr + 2); unsigned cap = nr + 1, nr2 = cap; rc = hwloc_get_local_numanode_objs(t, &loc, &nr2, nodes.data(), fl); if (tmp) hwloc_bitmap_free(tmp);
  std::set<uint64_t> got; for (unsigned i = 0; i < nr2 && i < cap; i++) if (nodes[i]) got.insert(nodes[i]->gp_index);
  if (rc || nr2 != nr || got != exp) viol0(w, own, "local_nodes.set", "get_local_numanode_objs(flags 0x%lx, location %s) returned %zu nodes, the definition selects %zu", fl, lcs.str().c_str(), got.size(), exp.size());
  // default nodeset: existing nodes with pairwise disjoint cpusets
  hwloc_bitmap_t ns = hwloc_bitmap_alloc(); rc = hwloc_topology_get_default_nodeset(t, ns, 0); BSet dn = BSet::from(ns); hwloc_bitmap_free(ns);
  if (rc) viol0(w, own, "default_nodeset.failed", "get_default_nodeset failed");
  BSet un; for (unsigned os : dn.elems()) { const ObjRec *n = nullptr; for (auto &kv : d.objs) if (kv.second.type == HWLOC_OBJ_NUMANODE && kv.second.os_index == os) n = &kv.second; if (!n) viol0(w, own, "default_nodeset.unknown_node", "default nodeset names node %u which does not exist", os); if (n->cs.intersects(un)) viol0(w, own, "default_nodeset.overlap", "default nodes have intersecting cpusets (node %u)", os); un = un | n->cs; }
}

static const char *INAMES[] = {"FrequencyMaxMHz", "FrequencyBaseMHz", "CoreType", "Foo", "Bar"};
static const char *IVALS[] = {"1000", "2000", "IntelAtom", "IntelCore", "x", ""};

static void kind_ops(World &w, const Op &o, int ri) {
  Run &r = *w.run; Replica &R = w.r[ri]; hwloc_topology_t t = R.t; const std::string &k = o.kind; const char *own = R.adopted ? "C19" : "C15";
  if (!R.kinds_tracked) { r.ev("%s skipped: cpukinds not tracked", k.c_str()); return; }
  if (k == "kind_register") {
    int mode = (int)(o.u("mode") % 7); BSet cs; bool null = false;
    if (mode == 0) {} else if (mode == 1) { for (unsigned i = 300; i < 310; i++) cs.add(i); } else if (mode == 2) null = true; else cs = sel_cpuset(R, o.u("sm") % 2 ? 0 : 8, o.u("bits")) ;
    int feff = (int)(o.u("eff") % 8) - 3; unsigned long fl = o.u("fl") % 12 == 0 ? 1 : 0;
    struct hwloc_infos_s infos; struct hwloc_info_s arr[3]; infos.array = arr; infos.count = (unsigned)(o.u("ni") % 4) % 3; infos.allocated = 3; KindReg g; g.forced = feff < 0 ? -1 : feff; Rng ig(o.u("is"));
    for (unsigned i = 0; i < infos.count; i++) { arr[i].name = (char *)INAMES[ig.below(5)]; arr[i].value = (char *)IVALS[ig.below(6)]; g.infos.push_back({arr[i].name, arr[i].value}); }
    hwloc_bitmap_t c = null ? nullptr : cs.to_hwloc();
    errno = 0; int rc = hwloc_cpukinds_register(t, c, feff, infos.count ? &infos : nullptr, fl); int e = errno; if (c) hwloc_bitmap_free(c);
    r.ev("kind_register r%d cs=%s eff=%d fl=%lu ninfos=%u -> %d e=%d", ri, null ? "NULL" : cs.str().c_str(), feff, fl, infos.count, rc, rc ? e : 0);
    if (R.adopted) { if (rc == 0) viol0(w, "C19", "shm.modify_not_refused", "cpukinds_register on an adopted topology returned %d errno %d", rc, e); return; }
    bool bad = null || cs.empty() || fl;
    if (bad) { r.count("probe.kind_register_rejected"); if (rc != -1 || e != EINVAL) viol0(w, own, "kinds.invalid_accepted", "cpukinds_register(cpuset %s, flags %lu) returned %d errno %d, expected -1/EINVAL", null ? "NULL" : cs.str().c_str(), fl, rc, e); return; }
    if (rc) viol0(w, own, "kinds.valid_refused", "valid cpukinds_register failed, errno %d", e);
    g.cs = cs; R.kind_regs.push_back(g); r.count("probe.kind_registered");
    return;
  }
  if (k == "kind_query") {
    const Dump &d = R.last; if (!d.have_aux) return; r.count("probe.kind_query");
    int nr = hwloc_cpukinds_get_nr(t, 0); if (nr != (int)d.kinds.size()) viol0(w, own, "kinds.get_nr", "get_nr = %d, get_info enumerates %zu kinds", nr, d.kinds.size());
    for (int i = 0; i < nr; i++) { hwloc_bitmap_t b = d.kinds[i].cs.to_hwloc(); int idx = hwloc_cpukinds_get_by_cpuset(t, b, 0); if (idx != i) viol0(w, own, "kinds.get_by_cpuset", "get_by_cpuset(cpuset of kind %d) = %d", i, idx);
      if (d.kinds[i].cs.weight() > 1) { hwloc_bitmap_clr(b, (unsigned)d.kinds[i].cs.first()); idx = hwloc_cpukinds_get_by_cpuset(t, b, 0); if (idx != i) viol0(w, own, "kinds.get_by_cpuset", "get_by_cpuset(subset of kind %d) = %d", i, idx); } hwloc_bitmap_free(b); }
    if (nr >= 2) { BSet s = d.kinds[o.u("a") % nr].cs | d.kinds[(o.u("a") + 1) % nr].cs; hwloc_bitmap_t b = s.to_hwloc(); errno = 0; int idx = hwloc_cpukinds_get_by_cpuset(t, b, 0); int e = errno; hwloc_bitmap_free(b); if (idx != -1 || e != EXDEV) viol0(w, own, "kinds.get_by_cpuset", "a set straddling two kinds gives %d errno %d, expected -1/EXDEV", idx, e); }
    if (nr >= 1) { BSet s = d.kinds[o.u("a") % nr].cs; s.add(400); hwloc_bitmap_t b = s.to_hwloc(); errno = 0; int idx = hwloc_cpukinds_get_by_cpuset(t, b, 0); int e = errno; hwloc_bitmap_free(b); if (idx != -1 || e != EXDEV) viol0(w, own, "kinds.get_by_cpuset", "a partially covered set gives %d errno %d, expected -1/EXDEV", idx, e); }
    { hwloc_bitmap_t b = hwloc_bitmap_alloc(); hwloc_bitmap_set(b, 500); errno = 0; int idx = hwloc_cpukinds_get_by_cpuset(t, b, 0); int e = errno; hwloc_bitmap_free(b); if (idx != -1 || e != ENOENT) viol0(w, own, "kinds.get_by_cpuset", "a set touching no kind gives %d errno %d, expected -1/ENOENT", idx, e); }
    return;
  }
}

bool ops_aux(World &w, const Op &o) {
  const std::string &k = o.kind;
  int ri = w.pick(o.u("r")); if (ri < 0) return true;
  if (k.rfind("dist_", 0) == 0) { dist_ops(w, o, ri); return true; }
  if (k == "mem_local") { mem_local(w, o, ri); return true; }
  if (k.rfind("mem_", 0) == 0) { mem_ops(w, o, ri); return true; }
  if (k.rfind("kind_", 0) == 0) { kind_ops(w, o, ri); return true; }
  return false;
}

}  // namespace hwsim
