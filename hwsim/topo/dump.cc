#include "dump.h"
#include <hwloc/distances.h>
#include <hwloc/memattrs.h>
#include <hwloc/cpukinds.h>
#include <sstream>
#include <inttypes.h>

namespace hwsim {

int ObjRec::kind() const { return type_is_normal(type) ? 0 : type_is_memory(type) ? 1 : type_is_io(type) ? 2 : 3; }

static std::string q(const std::string &s) { return enc(s); }

std::string render_attr(hwloc_obj_t o) {
  char b[512]; b[0] = 0;
  if (!o->attr) return "noattr";
  switch (o->type) {
  case HWLOC_OBJ_NUMANODE: {
    std::string s = "local=" + std::to_string(o->attr->numanode.local_memory) + " pages[";
    for (unsigned i = 0; i < o->attr->numanode.page_types_len; i++) s += std::to_string(o->attr->numanode.page_types[i].size) + "x" + std::to_string(o->attr->numanode.page_types[i].count) + ";";
    return s + "]";
  }
  case HWLOC_OBJ_L1CACHE: case HWLOC_OBJ_L2CACHE: case HWLOC_OBJ_L3CACHE: case HWLOC_OBJ_L4CACHE: case HWLOC_OBJ_L5CACHE:
  case HWLOC_OBJ_L1ICACHE: case HWLOC_OBJ_L2ICACHE: case HWLOC_OBJ_L3ICACHE: case HWLOC_OBJ_MEMCACHE:
    snprintf(b, sizeof b, "size=%" PRIu64 " depth=%u line=%u assoc=%d ctype=%d", (uint64_t)o->attr->cache.size, o->attr->cache.depth, o->attr->cache.linesize, o->attr->cache.associativity, (int)o->attr->cache.type); break;
  case HWLOC_OBJ_GROUP:
    snprintf(b, sizeof b, "gdepth=%u kind=%u subkind=%u dont_merge=%u", o->attr->group.depth, o->attr->group.kind, o->attr->group.subkind, (unsigned)o->attr->group.dont_merge); break;
  case HWLOC_OBJ_PCI_DEVICE: {
    auto &p = o->attr->pcidev;
    snprintf(b, sizeof b, "%04x:%02x:%02x.%x progif=%02x class=%04x id=%04x:%04x sub=%04x:%04x rev=%02x link=%.6f", p.domain, p.bus, p.dev, p.func, p.prog_if, p.class_id, p.vendor_id, p.device_id, p.subvendor_id, p.subdevice_id, p.revision, (double)p.linkspeed); break;
  }
  case HWLOC_OBJ_BRIDGE: {
    auto &br = o->attr->bridge; int n = snprintf(b, sizeof b, "up=%d down=%d bdepth=%u", (int)br.upstream_type, (int)br.downstream_type, br.depth);
    if (br.upstream_type == HWLOC_OBJ_BRIDGE_PCI) { auto &p = br.upstream.pci; n += snprintf(b + n, sizeof b - n, " up[%04x:%02x:%02x.%x progif=%02x class=%04x id=%04x:%04x sub=%04x:%04x rev=%02x link=%.6f]", p.domain, p.bus, p.dev, p.func, p.prog_if, p.class_id, p.vendor_id, p.device_id, p.subvendor_id, p.subdevice_id, p.revision, (double)p.linkspeed); }
    if (br.downstream_type == HWLOC_OBJ_BRIDGE_PCI) snprintf(b + n, sizeof b - n, " down[%04x:%02x-%02x]", br.downstream.pci.domain, br.downstream.pci.secondary_bus, br.downstream.pci.subordinate_bus);
    break;
  }
  case HWLOC_OBJ_OS_DEVICE: snprintf(b, sizeof b, "ostypes=0x%lx", (unsigned long)o->attr->osdev.types); break;
  default: break;
  }
  return b;
}

Infos read_infos(const struct hwloc_infos_s *is) {
  Infos v; if (!is) return v;
  for (unsigned i = 0; i < is->count && i < 100000; i++) v.push_back({is->array[i].name ? is->array[i].name : "(null)", is->array[i].value ? is->array[i].value : "(null)"});
  return v;
}
std::string infos_text(const Infos &v) { std::string s = "{"; for (auto &p : v) s += q(p.first) + "=" + q(p.second) + ";"; return s + "}"; }

std::string DistRec::text() const {
  std::ostringstream o; o << "dist name=" << (has_name ? q(name) : "-") << " kind=0x" << std::hex << kind << std::dec << " objs=";
  for (size_t i = 0; i < objs.size(); i++) o << objs[i] << ":" << types[i] << ",";
  o << " values="; for (uint64_t v : values) o << v << ","; return o.str();
}
std::string MemattrRec::text() const {
  std::ostringstream o; o << "memattr id=" << id << " name=" << q(name) << " flags=0x" << std::hex << flags << std::dec;
  for (auto &t : targets) { o << " T" << t.gp; if (t.has_value) o << "=" << t.value; for (auto &i : t.inits) o << "[" << i.loc << "=" << i.value << "]"; }
  return o.str();
}
std::string KindRec::text() const { return "kind cs=" + cs.str() + " eff=" + std::to_string(eff) + " infos=" + infos_text(infos); }

std::string Dump::obj_line(const ObjRec &o, bool xmlproj) const {
  std::ostringstream s;
  s << hwloc_obj_type_string((hwloc_obj_type_t)o.type) << " gp=" << o.gp << " os=" << (o.os_index == HWLOC_UNKNOWN_INDEX ? std::string("-") : std::to_string(o.os_index))
    << " L#" << ((xmlproj && o.depth < 0) ? std::string("*") : std::to_string(o.logical_index)) << " rank=" << o.sibling_rank << " depth=" << o.depth << " sub=" << (o.has_subtype ? q(o.subtype) : "-") << " name=" << (o.has_name ? q(o.name) : "-");
  if (o.hassets) s << " cs=" << o.cs.str() << " ccs=" << o.ccs.str() << " ns=" << o.ns.str() << " cns=" << o.cns.str();
  s << " attr{" << o.attr << "} infos=" << infos_text(o.infos) << " tm=" << o.total_memory;
  if (!xmlproj) s << " sym=" << o.symmetric;
  return s.str();
}

std::string Dump::aux_text(bool xmlproj) const {
  std::ostringstream s;
  if (xmlproj) {   // the exporter writes homogeneous matrices first, then heterogeneous ones: the statement promises content, not list position
    for (auto &d : dists) if (!(d.kind & HWLOC_DISTANCES_KIND_HETEROGENEOUS_TYPES)) s << d.text() << "\n";
    for (auto &d : dists) if (d.kind & HWLOC_DISTANCES_KIND_HETEROGENEOUS_TYPES) s << d.text() << "\n";
  } else for (auto &d : dists) s << d.text() << "\n";
  for (auto &m : memattrs) s << m.text() << "\n";
  for (auto &k : kinds) s << k.text() << "\n";
  return s.str();
}

std::string Dump::text(bool xmlproj, bool with_userdata) const {
  std::ostringstream s;
  if (!ok) s << "BROKEN " << broken << "\n";
  s << "topology depth=" << depth << " flags=0x" << std::hex << flags << std::dec;
  if (!xmlproj) { s << " thissystem=" << thissystem << " filters="; for (int i = 0; i < HWLOC_OBJ_TYPE_MAX; i++) s << filters[i]; s << " support=" << support; }
  s << "\nsets cs=" << tcs.str() << " ccs=" << tccs.str() << " ns=" << tns.str() << " cns=" << tcns.str() << " acs=" << acs.str() << " ans=" << ans.str() << "\n";
  s << "tinfos=" << infos_text(tinfos) << "\n";
  for (uint64_t gp : order) {
    const ObjRec &o = objs.at(gp);
    int ind = 0; for (uint64_t p = o.parent; p != ~0ULL && ind < 64; ind++) { auto it = objs.find(p); if (it == objs.end()) break; p = it->second.parent; }
    s << std::string(ind, ' ') << obj_line(o, xmlproj);
    if (with_userdata && !xmlproj) s << " ud=" << o.userdata;
    s << "\n";
  }
  // the order inside special (memory, I/O, Misc) levels, hence the logical_index of their objects, is not among the fields XML promises
  for (auto &l : levels) { s << "level " << l.first << " type=" << depth_type.at(l.first) << ":"; std::vector<uint64_t> v = l.second; if (xmlproj && l.first < 0) std::sort(v.begin(), v.end()); for (uint64_t g : v) s << " " << g; s << "\n"; }
  if (have_aux) s << aux_text(xmlproj);
  return s.str();
}

std::string Dump::text_norm(bool xmlproj) const {
  Dump n = *this; std::map<uint64_t, uint64_t> m; uint64_t k = 0;
  for (uint64_t gp : order) m[gp] = k++;
  auto mp = [&](uint64_t g) { auto it = m.find(g); return it == m.end() ? g + 1000000 : it->second; };
  n.objs.clear(); n.order.clear();
  for (uint64_t gp : order) { ObjRec o = objs.at(gp); o.gp = mp(gp); if (o.parent != ~0ULL) o.parent = mp(o.parent); for (auto &kk : o.kids) for (auto &x : kk) x = mp(x); n.objs[o.gp] = o; n.order.push_back(o.gp); }
  n.root = mp(root);
  for (auto &l : n.levels) for (auto &x : l.second) x = mp(x);
  for (auto &d : n.dists) for (auto &x : d.objs) x = mp(x);
  for (auto &a : n.memattrs) for (auto &t : a.targets) { t.gp = mp(t.gp); for (auto &i : t.inits) if (i.loc.rfind("obj:", 0) == 0 && i.loc != "obj:NULL") i.loc = "obj:" + std::to_string(mp(strtoull(i.loc.c_str() + 4, nullptr, 10))); }
  return n.text(xmlproj, !xmlproj);
}

static const int SPECIAL_DEPTHS[] = {HWLOC_TYPE_DEPTH_NUMANODE, HWLOC_TYPE_DEPTH_BRIDGE, HWLOC_TYPE_DEPTH_PCI_DEVICE, HWLOC_TYPE_DEPTH_OS_DEVICE, HWLOC_TYPE_DEPTH_MISC, HWLOC_TYPE_DEPTH_MEMCACHE};

static bool walk(Dump &d, hwloc_obj_t o, uint64_t parent, unsigned &budget) {
  if (!budget--) { d.broken = "walk budget exhausted (cycle?)"; return false; }
  if ((unsigned)o->type >= HWLOC_OBJ_TYPE_MAX) { d.broken = "object with invalid type"; return false; }
  ObjRec r; r.gp = o->gp_index; r.type = o->type; r.ptr = o;
  if (d.objs.count(r.gp)) { d.broken = "duplicate gp_index " + std::to_string(r.gp); return false; }
  if (o->subtype) { r.has_subtype = true; r.subtype = o->subtype; }
  if (o->name) { r.has_name = true; r.name = o->name; }
  r.os_index = o->os_index; r.depth = o->depth; r.logical_index = o->logical_index; r.sibling_rank = o->sibling_rank; r.parent = parent;
  r.hassets = o->cpuset || o->complete_cpuset || o->nodeset || o->complete_nodeset;
  r.cs = BSet::from(o->cpuset); r.ccs = BSet::from(o->complete_cpuset); r.ns = BSet::from(o->nodeset); r.cns = BSet::from(o->complete_nodeset);
  r.attr = render_attr(o); r.infos = read_infos(&o->infos);
  r.total_memory = o->total_memory; r.local_memory = (o->type == HWLOC_OBJ_NUMANODE && o->attr) ? o->attr->numanode.local_memory : 0;
  r.symmetric = o->symmetric_subtree; r.userdata = (uint64_t)(uintptr_t)o->userdata;
  d.order.push_back(r.gp);
  hwloc_obj_t firsts[4] = {o->first_child, o->memory_first_child, o->io_first_child, o->misc_first_child};
  auto ins = d.objs.insert({r.gp, r}); ObjRec &rr = ins.first->second;
  for (int k = 0; k < 4; k++) for (hwloc_obj_t c = firsts[k]; c; c = c->next_sibling) { rr.kids[k].push_back(c->gp_index); if (!walk(d, c, r.gp, budget)) return false; }
  return true;
}

static std::string loc_text(const struct hwloc_location &l) {
  if (l.type == HWLOC_LOCATION_TYPE_CPUSET) return "cs:" + BSet::from(l.location.cpuset).str();
  if (l.type == HWLOC_LOCATION_TYPE_OBJECT) return l.location.object ? "obj:" + std::to_string(l.location.object->gp_index) : "obj:NULL";
  return "loc?" + std::to_string((int)l.type);
}

void take_dump(hwloc_topology_t t, Dump &d, DumpMode mode) {
  d = Dump();
  d.depth = hwloc_topology_get_depth(t); d.flags = hwloc_topology_get_flags(t); d.thissystem = hwloc_topology_is_thissystem(t);
  for (int i = 0; i < HWLOC_OBJ_TYPE_MAX; i++) { enum hwloc_type_filter_e f = HWLOC_TYPE_FILTER_KEEP_ALL; hwloc_topology_get_type_filter(t, (hwloc_obj_type_t)i, &f); d.filters[i] = (int)f; }
  const struct hwloc_topology_support *sup = hwloc_topology_get_support(t);
  if (sup) {
    auto bytes = [](const void *p, size_t n) { std::string s; const unsigned char *c = (const unsigned char *)p; for (size_t i = 0; i < n; i++) s += (char)('0' + (c[i] > 9 ? 9 : c[i])); return s; };
    d.support = bytes(sup->discovery, sizeof(*sup->discovery)) + "/" + bytes(sup->cpubind, sizeof(*sup->cpubind)) + "/" + bytes(sup->membind, sizeof(*sup->membind)) + "/" + bytes(sup->misc, sizeof(*sup->misc));
  }
  d.tcs = BSet::from(hwloc_topology_get_topology_cpuset(t)); d.tccs = BSet::from(hwloc_topology_get_complete_cpuset(t));
  d.tns = BSet::from(hwloc_topology_get_topology_nodeset(t)); d.tcns = BSet::from(hwloc_topology_get_complete_nodeset(t));
  d.acs = BSet::from(hwloc_topology_get_allowed_cpuset(t)); d.ans = BSet::from(hwloc_topology_get_allowed_nodeset(t));
  d.tinfos = read_infos(hwloc_topology_get_infos(t));
  hwloc_obj_t root = hwloc_get_root_obj(t);
  if (!root) { d.broken = "no root"; return; }
  d.root = root->gp_index;
  unsigned budget = 2000000;
  if (!walk(d, root, ~0ULL, budget)) return;
  std::vector<int> depths; for (int i = 0; i < d.depth; i++) depths.push_back(i); for (int s : SPECIAL_DEPTHS) depths.push_back(s);
  for (int dep : depths) {
    unsigned n = hwloc_get_nbobjs_by_depth(t, dep); std::vector<uint64_t> v;
    for (unsigned i = 0; i < n && i < 2000000; i++) { hwloc_obj_t o = hwloc_get_obj_by_depth(t, dep, i); v.push_back(o ? o->gp_index : ~0ULL); }
    d.levels.push_back({dep, v}); d.depth_type[dep] = (int)hwloc_get_depth_type(t, dep);
  }
  d.ok = true;
  if (mode == DUMP_TREE) return;
  d.have_aux = true;
  // distances, in list order
  unsigned nr = 0; hwloc_distances_get(t, &nr, nullptr, 0, 0);
  if (nr) {
    std::vector<struct hwloc_distances_s *> ds(nr); unsigned n2 = nr; hwloc_distances_get(t, &n2, ds.data(), 0, 0);
    for (unsigned i = 0; i < n2 && i < nr; i++) {
      DistRec r; const char *nm = hwloc_distances_get_name(t, ds[i]); if (nm) { r.has_name = true; r.name = nm; }
      r.kind = ds[i]->kind;
      for (unsigned j = 0; j < ds[i]->nbobjs; j++) { hwloc_obj_t o = ds[i]->objs[j]; r.objs.push_back(o ? o->gp_index : ~0ULL); r.types.push_back(o ? (int)o->type : -1); }
      for (unsigned j = 0; j < ds[i]->nbobjs * ds[i]->nbobjs; j++) r.values.push_back(ds[i]->values[j]);
      d.dists.push_back(r); hwloc_distances_release(t, ds[i]);
    }
  }
  // memory attributes
  for (unsigned id = 0; id < 256; id++) {
    const char *name = nullptr; if (hwloc_memattr_get_name(t, id, &name) < 0) break;
    MemattrRec m; m.id = id; m.name = name ? name : "(null)"; hwloc_memattr_get_flags(t, id, &m.flags);
    // every target (usually NUMA nodes, but any object may be one) through get_targets with a NULL initiator
    unsigned ntg = 0; std::vector<hwloc_obj_t> tobjs; std::vector<hwloc_uint64_t> tvals;
    if (hwloc_memattr_get_targets(t, id, nullptr, 0, &ntg, nullptr, nullptr) == 0 && ntg) { tobjs.resize(ntg); tvals.resize(ntg); unsigned n2 = ntg; if (hwloc_memattr_get_targets(t, id, nullptr, 0, &n2, tobjs.data(), tvals.data()) < 0) ntg = 0; else if (n2 < ntg) ntg = n2; }
    for (unsigned n = 0; n < ntg; n++) {
      hwloc_obj_t node = tobjs[n]; if (!node) continue;
      MemTarget tg; tg.gp = node->gp_index;
      if (m.flags & HWLOC_MEMATTR_FLAG_NEED_INITIATOR) {
        unsigned ni = 0; if (hwloc_memattr_get_initiators(t, id, node, 0, &ni, nullptr, nullptr) < 0 || !ni) continue;
        std::vector<struct hwloc_location> locs(ni); std::vector<hwloc_uint64_t> vals(ni); unsigned n2 = ni;
        if (hwloc_memattr_get_initiators(t, id, node, 0, &n2, locs.data(), vals.data()) < 0) continue;
        for (unsigned i = 0; i < n2 && i < ni; i++) { MemInit mi; mi.loc = loc_text(locs[i]); mi.value = vals[i]; mi.is_cs = locs[i].type == HWLOC_LOCATION_TYPE_CPUSET; if (mi.is_cs) mi.cs = BSet::from(locs[i].location.cpuset); tg.inits.push_back(mi); }
        std::sort(tg.inits.begin(), tg.inits.end(), [](const MemInit &a, const MemInit &b) { return a.loc < b.loc || (a.loc == b.loc && a.value < b.value); });
      } else {
        hwloc_uint64_t v = 0; if (hwloc_memattr_get_value(t, id, node, nullptr, 0, &v) < 0) continue;
        tg.has_value = true; tg.value = v;
      }
      m.targets.push_back(tg);
    }
    std::sort(m.targets.begin(), m.targets.end(), [](const MemTarget &a, const MemTarget &b) { return a.gp < b.gp; });
    d.memattrs.push_back(m);
  }
  // cpukinds
  int nk = hwloc_cpukinds_get_nr(t, 0);
  for (int k = 0; k < nk; k++) {
    KindRec r; hwloc_bitmap_t cs = hwloc_bitmap_alloc(); struct hwloc_infos_s *is = nullptr; int eff = -99;
    if (hwloc_cpukinds_get_info(t, (unsigned)k, cs, &eff, &is, 0) == 0) { r.cs = BSet::from(cs); r.eff = eff; r.infos = read_infos(is); d.kinds.push_back(r); }
    hwloc_bitmap_free(cs);
  }
}

static void do_check(void *t) { hwloc_topology_check((hwloc_topology_t)t); }
std::string hwloc_check_guarded(hwloc_topology_t t) {
  if (guarded_call(do_check, t)) return "";
  std::string fn = g_last_assert.func; size_t par = fn.find('('); if (par != std::string::npos) fn = fn.substr(0, par); size_t sp = fn.find_last_of(" *"); if (sp != std::string::npos) fn = fn.substr(sp + 1);
  std::string e = fn + ":" + g_last_assert.expr;
  for (char &c : e) if (c == ' ' || c == '\t' || c == '\n' || c == '|') c = '_';
  return e;
}

}  // namespace hwsim
