// Topology diffs (C16): build / apply / reverse / XML persistence on private replica pairs, poisoned lists for roll-back.
#include "world.h"
#include <unistd.h>

namespace hwsim {

namespace {
void walk(hwloc_obj_t o, std::string &t) {
  t += std::to_string(o->depth) + "." + std::to_string(o->logical_index) + " name=" + (o->name ? enc(o->name) : "<null>") + " m" + std::to_string(o->total_memory);
  if (o->type == HWLOC_OBJ_NUMANODE) t += " l" + std::to_string(o->attr->numanode.local_memory);
  for (unsigned i = 0; i < o->infos.count; i++) t += std::string(" {") + enc(o->infos.array[i].name) + "=" + enc(o->infos.array[i].value) + "}";
  t += "\n";
  for (hwloc_obj_t c = o->first_child; c; c = c->next_sibling) walk(c, t);
  for (hwloc_obj_t c = o->memory_first_child; c; c = c->next_sibling) walk(c, t);
  for (hwloc_obj_t c = o->io_first_child; c; c = c->next_sibling) walk(c, t);
  for (hwloc_obj_t c = o->misc_first_child; c; c = c->next_sibling) walk(c, t);
}
// every attribute a diff may carry: names, info values, NUMA local memory and the derived total_memory, topology infos
std::string diffdump(hwloc_topology_t t) {
  std::string s; walk(hwloc_get_root_obj(t), s);
  struct hwloc_infos_s *ti = hwloc_topology_get_infos(t); for (unsigned i = 0; i < ti->count; i++) s += std::string("TI {") + enc(ti->array[i].name) + "=" + enc(ti->array[i].value) + "}\n";
  return s;
}
std::vector<hwloc_obj_t> all_objs(hwloc_topology_t t) { std::vector<hwloc_obj_t> v; std::vector<hwloc_obj_t> st{hwloc_get_root_obj(t)}; while (!st.empty()) { hwloc_obj_t o = st.back(); st.pop_back(); v.push_back(o); for (hwloc_obj_t c = o->misc_first_child; c; c = c->next_sibling) st.push_back(c); for (hwloc_obj_t c = o->io_first_child; c; c = c->next_sibling) st.push_back(c); for (hwloc_obj_t c = o->memory_first_child; c; c = c->next_sibling) st.push_back(c); for (hwloc_obj_t c = o->first_child; c; c = c->next_sibling) st.push_back(c); } return v; }
unsigned difflen(hwloc_topology_diff_t d) { unsigned n = 0; for (; d; d = d->generic.next) n++; return n; }
bool has_too_complex(hwloc_topology_diff_t d) { for (; d; d = d->generic.next) if (d->generic.type == HWLOC_TOPOLOGY_DIFF_TOO_COMPLEX) return true; return false; }

// everything a diff can NOT carry: structure, sets, type attributes (local memory aside), subtypes, which names are set, info names,
// distances / memattrs / cpukinds, allowed sets. Two topologies differ "in something a diff cannot express" iff these texts differ.
std::string structdump(hwloc_topology_t t, bool *ok) {
  Dump d; take_dump(t, d, DUMP_FULL); *ok = d.ok; std::string s;
  for (uint64_t gp : d.order) { const ObjRec &o = d.objs.at(gp); std::string attr = o.attr; size_t p = attr.find("local="); if (p != std::string::npos) { size_t e = attr.find(' ', p); attr.erase(p, e == std::string::npos ? std::string::npos : e - p); }
    s += std::to_string(o.type) + " d" + std::to_string(o.depth) + " l" + std::to_string(o.logical_index) + " os" + std::to_string(o.os_index) + " sub=" + (o.has_subtype ? enc(o.subtype) : "-") + " name" + (o.has_name ? "+" : "-") + " cs=" + o.cs.str() + "/" + o.ccs.str() + " ns=" + o.ns.str() + "/" + o.cns.str() + " {" + attr + "}";
    for (auto &i : o.infos) s += " " + enc(i.first); s += " k" + std::to_string(o.kids[0].size()) + "," + std::to_string(o.kids[1].size()) + "," + std::to_string(o.kids[2].size()) + "," + std::to_string(o.kids[3].size()) + "\n"; }
  s += "allowed " + d.acs.str() + " " + d.ans.str() + "\n"; for (auto &i : d.tinfos) s += "TI " + enc(i.first) + "\n";
  // distances by type and logical index (gp_index need not match), memattrs and kinds as reported
  for (auto &x : d.dists) { s += "dist kind=" + std::to_string(x.kind) + " n=" + std::to_string(x.objs.size()); for (size_t i = 0; i < x.objs.size(); i++) { const ObjRec *o = d.find(x.objs[i]); s += " " + std::to_string(x.types[i]) + ":" + (o ? std::to_string(o->logical_index) : "?"); } for (auto v : x.values) s += " " + std::to_string(v); s += "\n"; }
  Dump n = d; for (auto &m : n.memattrs) if (m.id >= 2) s += m.text() + "\n";   /* Capacity / Locality are derived from local memory and cpusets */
  for (auto &k : n.kinds) s += k.text() + "\n";
  return s;
}

struct Edits { bool complex = false; int nrepr = 0; bool name_unset_set = false; bool dup_info_later = false; bool hidden_change = false; };

// seeded edits on B; returns what kind of edits were made
void edit(hwloc_topology_t B, Rng &g, int ned, Edits &E, Run &r) {
  for (int i = 0; i < ned; i++) {
    std::vector<hwloc_obj_t> objs = all_objs(B); hwloc_obj_t o = objs[g.below(objs.size())]; int k = (int)g.below(12);
    switch (k) {
    case 0: case 1:
      if (o->name) { free(o->name); o->name = strdup(g.chance(1, 2) ? "gamma" : "delta &<x>"); E.nrepr++; }
      else { o->name = strdup("new"); E.complex = true; E.name_unset_set = true; }   // name set on one side only: not representable
      break;
    case 2: case 3:
      if (o->infos.count) { unsigned j = (unsigned)g.below(o->infos.count); for (unsigned q = 0; q < j; q++) if (!strcmp(o->infos.array[q].name, o->infos.array[j].name) && !strcmp(o->infos.array[q].value, o->infos.array[j].value)) E.dup_info_later = true;
        free(o->infos.array[j].value); o->infos.array[j].value = strdup(g.chance(1, 2) ? "z1" : "z 2"); E.nrepr++; }
      break;
    case 4: { int nn = hwloc_get_nbobjs_by_type(B, HWLOC_OBJ_NUMANODE); if (nn <= 0) break; hwloc_obj_t nd = hwloc_get_obj_by_type(B, HWLOC_OBJ_NUMANODE, (unsigned)g.below((uint64_t)nn)); uint64_t delta = 4096 * (1 + g.below(4)); nd->attr->numanode.local_memory += delta; for (hwloc_obj_t p = nd; p; p = p->parent) p->total_memory += delta; E.nrepr++; break; }
    case 5: hwloc_obj_add_info(o, "Extra", "1"); E.complex = true; break;
    case 6: if (hwloc_topology_insert_misc_object(B, o, "m")) E.complex = true; break;
    case 7: if (!o->subtype || strcmp(o->subtype, "st")) { hwloc_obj_set_subtype(B, o, "st"); E.complex = true; } break;
    case 8: { struct hwloc_infos_s *ti = hwloc_topology_get_infos(B); if (ti->count) { unsigned j = (unsigned)g.below(ti->count); for (unsigned q = 0; q < j; q++) if (!strcmp(ti->array[q].name, ti->array[j].name) && !strcmp(ti->array[q].value, ti->array[j].value)) E.dup_info_later = true; free(ti->array[j].value); ti->array[j].value = strdup("tz"); E.nrepr++; } break; }
    case 9: if (o->name) { free(o->name); o->name = nullptr; E.complex = true; E.name_unset_set = true; } break;
    case 10: { hwloc_bitmap_t c = hwloc_bitmap_dup(hwloc_topology_get_topology_cpuset(B)); if (hwloc_bitmap_weight(c) > 1) hwloc_bitmap_clr(c, (unsigned)hwloc_bitmap_first(c)); Dump k0, k1; take_dump(B, k0, DUMP_FULL); int krc = hwloc_cpukinds_register(B, c, -1, nullptr, 0); take_dump(B, k1, DUMP_FULL); std::string a0, a1; for (auto &x : k0.kinds) a0 += x.text(); for (auto &x : k1.kinds) a1 += x.text(); if (a0 != a1) E.complex = true; else if (krc == 0) E.hidden_change = true;   /* the forced efficiency was overwritten: a difference no public call shows */ hwloc_bitmap_free(c); break; }
    case 11: { hwloc_const_bitmap_t u = hwloc_topology_get_topology_cpuset(B); if (hwloc_bitmap_weight(u) > 2) { hwloc_bitmap_t c = hwloc_bitmap_dup(u); hwloc_bitmap_clr(c, (unsigned)hwloc_bitmap_last(c)); Dump b0, b1; take_dump(B, b0, DUMP_TREE); if (hwloc_topology_restrict(B, c, 0) == 0) { take_dump(B, b1, DUMP_TREE); if (b0.order.size() != b1.order.size()) E.complex = true; } hwloc_bitmap_free(c); } break; }
    }
    r.count("probe.diff_edit"); if (getenv("HWSIM_DUMP")) fprintf(stderr, "edit kind %d on %s L#%u\n", k, hwloc_obj_type_string(o->type), o->logical_index);
  }
}
}  // namespace

bool ops_diff(World &w, const Op &o) {
  Run &r = *w.run; if (o.kind != "diff") return false;
  int ri = w.pick(o.u("r")); if (ri < 0) return true; Replica &R = w.r[ri];
  const char *own = "C16";
  // private pair: A = annotated dup of the replica, B = dup(A) + edits
  hwloc_topology_t A = nullptr, B = nullptr, B2 = nullptr, C = nullptr;
  if (hwloc_topology_dup(&A, R.t) < 0) { r.ev("diff: dup failed"); return true; }
  struct Tmp { hwloc_topology_t &a, &b, &b2, &c; Run &r; ~Tmp() { if (r.violated || r.cut) return; if (a) hwloc_topology_destroy(a); if (b) hwloc_topology_destroy(b); if (b2) hwloc_topology_destroy(b2); if (c) hwloc_topology_destroy(c); } } tmp{A, B, B2, C, r};
  Rng g(o.u("es")); std::vector<hwloc_obj_t> objs = all_objs(A);
  for (int i = 0; i < 6; i++) { hwloc_obj_t x = objs[g.below(objs.size())]; if (g.chance(1, 2)) { free(x->name); x->name = strdup(g.chance(1, 2) ? "alpha" : "beta"); } hwloc_obj_add_info(x, g.chance(1, 2) ? "K1" : "K2", g.chance(1, 2) ? "x" : "y"); }
  // mass mode (1 diff op in 8, a function of the op's edit seed): every object of A is named and annotated, every one of them is edited in B,
  // so that the diff has hundreds of entries and its XML form exceeds the exporters' initial buffer sizes
  bool mass = ((o.u("es") >> 40) & 7) == 0;
  if (mass) for (size_t i = 0; i < objs.size(); i++) { free(objs[i]->name); objs[i]->name = strdup(("a" + std::to_string(i)).c_str()); hwloc_obj_add_info(objs[i], "Mass", ("v" + std::to_string(i)).c_str()); }
  if (hwloc_topology_dup(&B, A) < 0) { r.ev("diff: dup failed"); return true; }
  Edits E; int ned = (int)(o.u("ne") % 5);
  if (mass) { std::vector<hwloc_obj_t> ob = all_objs(B); for (size_t i = 0; i < ob.size(); i++) { if (i % 3 != 1) { free(ob[i]->name); ob[i]->name = strdup(("b" + std::to_string(i)).c_str()); E.nrepr++; } if (i % 3 != 2 && ob[i]->infos.count) { unsigned j = ob[i]->infos.count - 1; free(ob[i]->infos.array[j].value); ob[i]->infos.array[j].value = strdup(("w" + std::to_string(i)).c_str()); E.nrepr++; } } r.count("probe.diff_mass_edit"); }
  edit(B, g, ned, E, r);
  std::string dA = diffdump(A), dB = diffdump(B);
  // judged on the states, not on the edit history (two edits may cancel each other)
  { bool okA, okB; std::string sA = structdump(A, &okA), sB = structdump(B, &okB); E.complex = sA != sB; E.name_unset_set = false;
    if (getenv("HWSIM_DIFFDIR")) { std::string dd = getenv("HWSIM_DIFFDIR"); FILE *f = fopen((dd + "/sa.txt").c_str(), "w"); fputs(sA.c_str(), f); fclose(f); f = fopen((dd + "/sb.txt").c_str(), "w"); fputs(sB.c_str(), f); fclose(f); }
    if (E.complex) { std::vector<hwloc_obj_t> oa = all_objs(A), ob = all_objs(B); if (oa.size() == ob.size()) for (size_t i = 0; i < oa.size(); i++) if (!oa[i]->name != !ob[i]->name) E.name_unset_set = true; } }
  bool same = dA == dB && !E.complex;
  if (E.hidden_change && !E.complex) { r.ev("diff r%d: edit changed only hidden cpukind state, not judged", ri); r.count("probe.diff_hidden_change_skipped"); return true; }
  // heterogeneous distances make diff_build give up although nothing differs ("too lazy to support this case")
  bool hetero = false; { Dump d; take_dump(A, d, DUMP_FULL); for (auto &x : d.dists) if (x.kind & HWLOC_DISTANCES_KIND_HETEROGENEOUS_TYPES) hetero = true; }
  hwloc_topology_diff_t d = nullptr; int rc = hwloc_topology_diff_build(A, B, 0, &d);
  r.ev("diff r%d edits=%d repr=%d complex=%d -> build %d len=%u", ri, ned, E.nrepr, (int)E.complex, rc, difflen(d));
  struct DFree { hwloc_topology_diff_t &d; Run &r; ~DFree() { if (!r.violated && !r.cut && d) hwloc_topology_diff_destroy(d); } } dfree{d, r};
  if (E.complex) {
    r.count("probe.diff_too_complex_expected");
    if (rc != 1 || !has_too_complex(d)) { if (E.name_unset_set && rc == 0) viol0(w, own, "diff.build.name_set_vs_unset", "an object name set in one topology and unset in the other: diff_build returned 0 instead of 1 with a TOO_COMPLEX entry"); viol0(w, own, "diff.build.too_complex", "the topologies differ in something a diff cannot express but diff_build returned %d (TOO_COMPLEX entry: %d)", rc, (int)has_too_complex(d)); }
    return true;
  }
  if (hetero && rc == 1) { r.count("probe.diff_hetero_distances"); viol0(w, own, "diff.build.heterogeneous_distances", "diff_build returns 1 (TOO_COMPLEX) for topologies that hold a distances structure with heterogeneous types, although they do not differ in anything a diff cannot express"); }
  if (rc != 0 && getenv("HWSIM_DUMP")) for (hwloc_topology_diff_t x = d; x; x = x->generic.next) fprintf(stderr, "entry type %d depth %d idx %u\n", (int)x->generic.type, x->obj_attr.obj_depth, x->obj_attr.obj_index);
  if (rc != 0) viol0(w, own, "diff.build.representable", "only representable edits were made but diff_build returned %d", rc);
  if (same) { r.count("probe.diff_identical"); if (d) viol0(w, own, "diff.build.identical_not_null", "identical topologies but diff_build returned a non-NULL diff"); return true; }
  if (!d) viol0(w, own, "diff.build.different_null", "the topologies differ in a name / info value / memory size but diff_build returned a NULL diff");
  r.count("probe.diff_representable");
  // apply to a copy of A
  if (hwloc_topology_dup(&C, A) < 0) return true;
  int ar = hwloc_topology_diff_apply(C, d, 0);
  if (ar) viol0(w, own, "diff.apply.failed", "applying build(A,B) to a copy of A returned %d", ar);
  if (diffdump(C) != dB) { if (E.dup_info_later) viol0(w, own, "diff.apply.duplicate_info_pair", "B edits the later of two identical info pairs; the diff identifies an info by name and old value, apply rewrote the first occurrence"); viol0(w, own, "diff.apply.result", "the patched copy of A differs from B in an attribute a diff carries"); }
  { hwloc_topology_diff_t d2 = nullptr; int r2 = hwloc_topology_diff_build(C, B, 0, &d2); bool bad = r2 != 0 || d2; if (d2) hwloc_topology_diff_destroy(d2); if (bad) viol0(w, own, "diff.apply.rebuild_not_empty", "diff_build(patched copy, B) returned %d with a non-empty diff", r2); }
  ar = hwloc_topology_diff_apply(C, d, HWLOC_TOPOLOGY_DIFF_APPLY_REVERSE);
  if (ar || diffdump(C) != dA) viol0(w, own, "diff.reverse", "APPLY_REVERSE returned %d and %s A", ar, diffdump(C) == dA ? "restored" : "did not restore");
  // XML persistence of the diff (buffer or file), same refname, still applies
  { bool tofile = o.u("xml") & 1; const char *ref = (o.u("xml") & 2) ? "ref A&<1>" : "refA"; hwloc_topology_diff_t d3 = nullptr; char *ref2 = nullptr; int er, lr;
    if (tofile) { std::string path = std::string(scratch_dir()) + "/diff." + std::to_string(w.next_token++) + ".xml"; er = hwloc_topology_diff_export_xml(d, ref, path.c_str()); lr = er ? -1 : hwloc_topology_diff_load_xml(path.c_str(), &d3, &ref2); unlink(path.c_str()); }
    else { char *x = nullptr; int l = 0; er = hwloc_topology_diff_export_xmlbuffer(d, ref, &x, &l); if (!er && l > 16384) r.count("probe.diff_xml_over_16k"); lr = er ? -1 : hwloc_topology_diff_load_xmlbuffer(x, l, &d3, &ref2); if (x) free(x); }
    r.count("probe.diff_xml_roundtrip");
    if (er || lr) { if (d3) hwloc_topology_diff_destroy(d3); free(ref2); viol0(w, own, "diff.xml", "diff XML export returned %d, load returned %d", er, lr); }
    bool refok = ref2 && !strcmp(ref2, ref); free(ref2);
    int ar2 = hwloc_topology_diff_apply(C, d3, 0); std::string dC = diffdump(C); unsigned l1 = difflen(d), l3 = difflen(d3); hwloc_topology_diff_destroy(d3);
    if (!refok) viol0(w, own, "diff.xml_refname", "the refname does not survive diff export/load");
    if (l1 != l3 || ar2 || dC != dB) viol0(w, own, "diff.xml", "the diff reloaded from XML has %u entries (exported %u), applies with %d and %s B", l3, l1, ar2, dC == dB ? "gives" : "does not give");
    hwloc_topology_diff_apply(C, d, HWLOC_TOPOLOGY_DIFF_APPLY_REVERSE);   // back to A for the roll-back test
  }
  // roll-back: a second diff chained behind the first (possibly touching the same attribute again), one entry poisoned
  if (o.u("poison") % 3 != 0) {
    hwloc_topology_diff_t chain = d; unsigned len = difflen(d); hwloc_topology_diff_t d2 = nullptr;
    if (o.u("chain") & 1) {
      if (hwloc_topology_dup(&B2, B) == 0) { Rng g2(o.u("es") ^ 0x5555); // representable edits only: re-edit the same kinds of attributes
        std::vector<hwloc_obj_t> ob = all_objs(B2); for (int i = 0; i < 3; i++) { hwloc_obj_t x = ob[g2.below(ob.size())]; if (x->name && g2.chance(1, 2)) { free(x->name); x->name = strdup("eps"); } else if (x->infos.count) { unsigned j = (unsigned)g2.below(x->infos.count); bool dupl = false; for (unsigned q = 0; q < x->infos.count; q++) if (q != j && !strcmp(x->infos.array[q].name, x->infos.array[j].name)) dupl = true; if (!dupl) { free(x->infos.array[j].value); x->infos.array[j].value = strdup("w9"); } } }
        if (hwloc_topology_diff_build(B, B2, 0, &d2) == 0 && d2) { hwloc_topology_diff_t last = d; while (last->generic.next) last = last->generic.next; last->generic.next = d2; len = difflen(d); r.count("probe.diff_chained"); } else if (d2) { hwloc_topology_diff_destroy(d2); d2 = nullptr; } }
    }
    unsigned N = 1 + (unsigned)(o.u("pn") % len); hwloc_topology_diff_t e = chain; for (unsigned i = 1; i < N; i++) e = e->generic.next;
    int pk = (int)(o.u("pk") % 4);
    if (e->generic.type == HWLOC_TOPOLOGY_DIFF_OBJ_ATTR && e->obj_attr.obj_depth == hwloc_topology_get_depth(C) && pk == 0) pk = 3;   // a topology-info entry ignores obj_index: poison its old value instead
    if (e->generic.type == HWLOC_TOPOLOGY_DIFF_OBJ_ATTR) {
      if (pk == 0) e->obj_attr.obj_index = 99999;
      else if (pk == 1) e->obj_attr.obj_depth = 77;
      else if (e->obj_attr.diff.generic.type == HWLOC_TOPOLOGY_DIFF_OBJ_ATTR_SIZE) e->obj_attr.diff.uint64.oldvalue += 1;
      else { free(e->obj_attr.diff.string.oldvalue); e->obj_attr.diff.string.oldvalue = strdup("WRONG-OLD-VALUE"); }
      std::string before = diffdump(C);
      if (w.run->verbose) { unsigned k = 0; for (hwloc_topology_diff_t x = chain; x; x = x->generic.next) { k++; if (x->generic.type == HWLOC_TOPOLOGY_DIFF_OBJ_ATTR) { auto &a = x->obj_attr; if (a.diff.generic.type == HWLOC_TOPOLOGY_DIFF_OBJ_ATTR_SIZE) fprintf(stderr, "  entry %u: depth %d index %u SIZE %llu -> %llu\n", k, a.obj_depth, a.obj_index, (unsigned long long)a.diff.uint64.oldvalue, (unsigned long long)a.diff.uint64.newvalue); else fprintf(stderr, "  entry %u: depth %d index %u %s '%s': '%s' -> '%s'\n", k, a.obj_depth, a.obj_index, a.diff.generic.type == HWLOC_TOPOLOGY_DIFF_OBJ_ATTR_NAME ? "NAME" : "INFO", a.diff.string.name ? a.diff.string.name : "", a.diff.string.oldvalue ? a.diff.string.oldvalue : "(null)", a.diff.string.newvalue ? a.diff.string.newvalue : "(null)"); } else fprintf(stderr, "  entry %u: type %d\n", k, (int)x->generic.type); } }
      int pr = hwloc_topology_diff_apply(C, chain, 0);
      r.ev("diff poisoned entry %u/%u kind %d -> %d", N, len, pk, pr); r.count("probe.diff_poisoned_apply");
      if (pr != -(int)N) viol0(w, own, "diff.rollback.return", "entry %u of %u cannot be applied but diff_apply returned %d instead of %d", N, len, pr, -(int)N);
      { std::string after = diffdump(C); if (after != before) { size_t pa = 0, pb = 0; std::string la, lb; while (pa < before.size() || pb < after.size()) { size_t ea = before.find('\n', pa), eb = after.find('\n', pb); if (ea == std::string::npos) ea = before.size(); if (eb == std::string::npos) eb = after.size(); la = before.substr(pa, ea - pa); lb = after.substr(pb, eb - pb); if (la != lb) break; pa = ea + 1; pb = eb + 1; }
          // known finding (same defect as diff.apply.duplicate_info_pair): the differing object carries two infos with the same name, which an entry cannot tell apart once their values coincide
          { bool dupname = false; for (hwloc_obj_t x : all_objs(C)) for (unsigned q = 0; q < x->infos.count; q++) for (unsigned q2 = q + 1; q2 < x->infos.count; q2++) if (!strcmp(x->infos.array[q].name, x->infos.array[q2].name) && la.find("{" + std::string(x->infos.array[q].name) + "=") != std::string::npos) dupname = true;
            { struct hwloc_infos_s *ti = hwloc_topology_get_infos(C); for (unsigned q = 0; ti && q < ti->count; q++) for (unsigned q2 = q + 1; q2 < ti->count; q2++) if (!strcmp(ti->array[q].name, ti->array[q2].name) && la.compare(0, 3, "TI ") == 0 && la.find("{" + std::string(ti->array[q].name) + "=") != std::string::npos) dupname = true; }   // same for the topology infos (several Backend= entries)
            if (dupname && la.substr(0, la.find('{')) == lb.substr(0, lb.find('{'))) viol0(w, own, "diff.rollback.state.duplicate_info_name", "diff_apply failed at entry %u of %u (returned %d); an object with two infos of the same name was not restored: '%s' became '%s'", N, len, pr, la.substr(0, 300).c_str(), lb.substr(0, 300).c_str()); }
          viol0(w, own, "diff.rollback.state", "diff_apply failed at entry %u of %u (returned %d) and left the topology modified: '%s' became '%s'", N, len, pr, la.substr(0, 500).c_str(), lb.substr(0, 500).c_str()); } }
    }
  }
  return true;
}

}  // namespace hwsim
