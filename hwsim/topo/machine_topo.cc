// Topology machine: the replica world under seeded operation histories (C01, C02, C05, C08, C09, C12-C16, C19).
#include "world.h"
#include <unistd.h>
#include <sys/mman.h>
#include <algorithm>

namespace hwsim {

// In a C02 run an op-specific oracle of another property (restrict's relational oracle, a distances / memattr model...) may fire before the
// well-formedness checker has looked at the state the op left behind. Before the run is cut, the checker gets its look: if the state is also
// malformed, that is C02's own violation and is reported as such (the other property's check reports its side independently).
static void wf_before_cut(World &w, const char *owner) {
  if (w.cfg.prop != "C02" || w.cfg.prop == owner || w.cur_ri < 0 || w.in_wf_probe) return;
  Replica &R = w.r[w.cur_ri]; if (!R.live() || R.adopted) return;
  w.in_wf_probe = true;
  Dump d; take_dump(R.t, d, DUMP_FULL); std::string e = wf_check(R.t, d);
  if (!e.empty()) { w.run->count("probe.wf_checked_before_foreign_cut"); w.run->fail(e.substr(0, e.find(": ")), "%s", e.c_str()); }
  w.in_wf_probe = false;
}
void viol(World &w, const char *owner, const std::string &oid, const char *fmt, ...) {
  char b[4096]; va_list ap; va_start(ap, fmt); vsnprintf(b, sizeof b, fmt, ap); va_end(ap);
  if (w.cfg.prop == owner) w.run->fail(oid, "%s", b);
  wf_before_cut(w, owner);
  w.run->cut_short(owner, "%s: %s", oid.c_str(), b);
}
void viol0(World &w, const char *owner, const std::string &oid, const char *fmt, ...) {
  char b[4096]; va_list ap; va_start(ap, fmt); vsnprintf(b, sizeof b, fmt, ap); va_end(ap);
  if (w.cfg.prop == owner) w.run->fail0(oid, "%s", b);
  wf_before_cut(w, owner);
  w.run->cut_short(owner, "%s: %s", oid.c_str(), b);
}

// ---------------------------------------------------------------- selection (pure functions of the last dump)
hwloc_obj_t sel_obj(const Replica &R, uint64_t sel, int kindmask) {
  const Dump &d = R.last; std::vector<hwloc_obj_t> c;
  for (uint64_t gp : d.order) { const ObjRec &o = d.objs.at(gp); if (kindmask & (1 << o.kind())) c.push_back(o.ptr); }
  if (c.empty()) return hwloc_get_root_obj(R.t);
  return c[sel % c.size()];
}
hwloc_obj_t sel_type(const Replica &R, uint64_t sel, int type) {
  const Dump &d = R.last; std::vector<hwloc_obj_t> c;
  for (uint64_t gp : d.order) { const ObjRec &o = d.objs.at(gp); if (o.type == type) c.push_back(o.ptr); }
  return c.empty() ? nullptr : c[sel % c.size()];
}
static BSet sel_set(const Replica &R, int mode, uint64_t bits, bool nodes) {
  const Dump &d = R.last; BSet s; const ObjRec *root = d.find(d.root);
  BSet all = nodes ? root->cns : root->ccs;
  std::vector<unsigned> el = all.elems();
  Rng g(bits);
  switch (((unsigned)mode) % 9) {
  case 0: for (size_t i = 0; i < el.size(); i++) if ((bits >> (i % 64)) & 1) s.add(el[i]); break;              // explicit subset (bit i = keep element i)
  case 1: { int n = 1 + (int)(bits % 3); for (int i = 0; i < n; i++) { hwloc_obj_t o = sel_obj(R, g.next(), 3); s = s | BSet::from(nodes ? o->nodeset : o->cpuset); } break; }   // union of objects
  case 2: { int n = 1 + (int)(bits % 2); for (int i = 0; i < n; i++) { hwloc_obj_t o = sel_obj(R, g.next(), 3); s = s | BSet::from(nodes ? o->nodeset : o->cpuset); } s = all - s; break; }   // complement
  case 3: for (size_t i = 0; i < el.size(); i++) if ((bits >> (i % 64)) & 1) s.add(el[i]); { BSet t; t.inf = true; t.w.assign(4 + bits % 3, 0); s = s | t; } break;   // with infinite tail
  case 4: break;                                                                                                // empty
  case 5: { long l = all.last(); s.add((unsigned)(l + 1 + (long)(bits % 70))); break; }                          // disjoint from the topology
  case 6: s.inf = true; break;                                                                                   // full
  case 7: s = all; s.add((unsigned)(all.last() + 1 + (long)(bits % 5))); break;                                  // superset
  case 8: for (size_t i = 0; i < el.size(); i++) if (g.chance(3, 4)) s.add(el[i]); break;                        // dense random subset
  }
  return s;
}
BSet sel_cpuset(const Replica &R, int mode, uint64_t bits) { return sel_set(R, mode, bits, false); }
BSet sel_nodeset(const Replica &R, int mode, uint64_t bits) { return sel_set(R, mode, bits, true); }

// ---------------------------------------------------------------- observation
void observe(World &w, int ri, const char *wf_owner, bool force_full) {
  Replica &R = w.r[ri];
  take_dump(R.t, R.last, (w.cfg.lazy && !force_full) ? DUMP_TREE : DUMP_FULL);
  if (R.last.have_aux) R.aux_stale = false;
  R.last_text = R.last.text();
  if (getenv("HWSIM_DUMP")) fprintf(stderr, "---- r%d after %s #%d\n%s", ri, w.run->curop.c_str(), w.run->curopidx, R.last_text.c_str());
  if (wf_owner && *wf_owner) {
    std::string e = wf_check(R.t, R.last);
    if (!e.empty()) { std::string clause = e.substr(0, e.find(": ")); for (auto &h : w.hint) if (clause.rfind(h.first, 0) == 0) { clause += "." + h.second; break; } viol(w, wf_owner, clause, "%s", e.c_str()); }
  }
  w.run->distinct("state", mix2(hash_str(R.last_text), hash_str(w.run->curop)));
}

void destroy_replica(World &w, int ri) {
  Replica &R = w.r[ri]; if (!R.live()) return;
  hwloc_topology_destroy(R.t);
  if (R.twin >= 0 && w.r[R.twin].twin == ri) w.r[R.twin].twin = -1;
  if (R.shm_fd >= 0) close(R.shm_fd);
  if (!R.shm_file.empty()) unlink(R.shm_file.c_str());
  void *sa = R.adopted ? R.shm_addr : nullptr; size_t sl = R.shm_len;
  R = Replica();
  if (sa) shm_after_destroy(w, sa, sl);
}

// generic invariants of C02 between the dump before (B) and after (A) an op on one replica
static void generic_after(World &w, int ri, const Dump &B) {
  Replica &R = w.r[ri]; const Dump &A = R.last; const char *own = R.adopted ? "C19" : "C02";
  // identity of an object is its gp_index (a pointer is not: a dont_merge Group replacing an identical Group takes over its storage)
  for (auto &kv : A.objs) {
    const ObjRec &a = kv.second;
    const ObjRec *b = B.find(a.gp);
    if (b && b->type != a.type) viol0(w, own, "gp_index.reused", "gp_index %llu now names a %s, was a %s", (unsigned long long)a.gp, hwloc_obj_type_string((hwloc_obj_type_t)a.type), hwloc_obj_type_string((hwloc_obj_type_t)b->type));
    auto u = R.userdata.find(a.gp); uint64_t exp = u == R.userdata.end() ? 0 : u->second;
    if (b && a.userdata != exp) viol0(w, own, "userdata.altered", "userdata of surviving %s gp=%llu is %llu, the application stored %llu", hwloc_obj_type_string((hwloc_obj_type_t)a.type), (unsigned long long)a.gp, (unsigned long long)a.userdata, (unsigned long long)exp);
  }
}

// every other live replica must report exactly what it reported before
static void independence(World &w, int ri) {
  for (int j = 0; j < MAXREP; j++) {
    if (j == ri || !w.r[j].live()) continue;
    Replica &O = w.r[j]; Dump d; take_dump(O.t, d, O.last.have_aux ? DUMP_FULL : DUMP_TREE);
    if (d.text() != O.last_text) {
      const char *own = (O.twin_kind == 3 || w.r[ri].twin_kind == 3 || O.adopted || w.r[ri].adopted) ? "C19" : (O.loaded_from == 2 || w.r[ri].loaded_from == 2) ? "C05" : "C12";
      viol(w, own, "replica.independence", "an op on replica r%d changed what replica r%d reports", ri, j);
    }
  }
}

static void diff_line(const std::string &a, const std::string &b, std::string &la, std::string &lb) {
  size_t pa = 0, pb = 0;
  while (pa < a.size() || pb < b.size()) { size_t ea = a.find('\n', pa), eb = b.find('\n', pb); if (ea == std::string::npos) ea = a.size(); if (eb == std::string::npos) eb = b.size(); la = a.substr(pa, ea - pa); lb = b.substr(pb, eb - pb); if (la != lb) return; pa = ea + 1; pb = eb + 1; }
  la = lb = "";
}

// one op on one replica, followed by the generic per-op oracles
static void exec_on(World &w, const Op &o, int ri) {
  Run &r = *w.run; w.hint.clear(); w.cur_ri = ri;
  Dump B = w.r[ri].last;
  bool handled = ops_core(w, o) || ops_aux(w, o) || ops_diff(w, o);
  if (!handled) { r.ev("unknown op %s", o.kind.c_str()); return; }
  if (!w.r[ri].live()) return;
  bool aux = o.kind.rfind("dist_", 0) == 0 || o.kind.rfind("mem_", 0) == 0 || o.kind.rfind("kind_", 0) == 0;
  observe(w, ri, w.r[ri].adopted ? "C19" : "C02", aux && (o.u("obs") & 1));
  // a Group merged with another Group may be replaced in place under a new gp_index (hwloc_replace_linked_object). A distances
  // structure that referenced the old Group reports the replacement until its next refresh and drops it afterwards: both answers
  // reference objects of the topology, the statement does not say which one is right, so the reference list stops following
  // this replica's distances from here on
  if ((o.kind == "group" || o.kind == "dist_add") && w.r[ri].dists_tracked) {
    for (auto &dm : w.r[ri].user_dists) for (size_t x = 0; x < dm.objs.size(); x++) if (dm.types[x] == HWLOC_OBJ_GROUP && B.find(dm.objs[x]) && !w.r[ri].last.find(dm.objs[x])) { w.r[ri].dists_tracked = false; r.count("probe.group_replaced_under_distances_untracked"); }
  }
  // memattr targets and object initiators are identified by gp_index: a Group that was replaced is a removed object for them
  if (o.kind == "group" || o.kind == "dist_add") {
    const Dump &A = w.r[ri].last;
    for (auto &am : w.r[ri].memattrs) { MemAttrModel &m = am.second;
      for (auto it = m.noinit.begin(); it != m.noinit.end();) { if (!A.find(it->first)) it = m.noinit.erase(it); else ++it; }
      for (auto it = m.tg.begin(); it != m.tg.end();) { bool gone = !A.find(it->first); if (!gone) { std::vector<MemInitModel> v; for (auto &i : it->second) if (!i.is_obj || A.find(i.objgp)) v.push_back(i); it->second = v; gone = v.empty(); } if (gone) it = m.tg.erase(it); else ++it; } }
  }
  check_models(w, ri, o.kind.c_str());
  generic_after(w, ri, B);
  independence(w, ri);
  r.ev("state r%d %016llx", ri, (unsigned long long)hash_str(w.r[ri].last_text));
}

struct TopoMachine : Machine {
  const char *name() override { return "topo"; }
  int nclasses(const std::string &prop) override { (void)prop; return 4; }   // XML back-end pairing, cached in statics per process
  void proc_setup(int pclass, const Plan *) override {
    setenv("HWLOC_LIBXML_IMPORT", (pclass & 1) ? "1" : "0", 1); setenv("HWLOC_LIBXML_EXPORT", (pclass & 2) ? "1" : "0", 1);
    setenv("HWLOC_DONT_ADD_VERSION_INFO", "1", 1);   // otherwise every load appends hwlocVersion/ProcessName infos of this process
    setenv("HWLOC_HIDE_ERRORS", "2", 1);   // error verbosity is cached too; keep stderr quiet
    unsetenv("HWLOC_XMLFILE"); unsetenv("HWLOC_SYNTHETIC"); unsetenv("HWLOC_FSROOT"); unsetenv("HWLOC_COMPONENTS");
    unsetenv("HWLOC_CPUID_PATH"); unsetenv("HWLOC_DUMPED_HWDATA_DIR");   // set around snapshot loads only (ops_snapshot.cc)
  }

  // ------------------------------------------------------------------ plan generation
  Plan gen(uint64_t seed, const std::string &prop, const std::string &tier, int pclass) override {
    Plan p; p.machine = "topo"; p.prop = prop; p.tier = tier; p.seed = seed;
    p.seth("proc", "class=" + std::to_string(pclass));
    Rng root(seed); Rng cfg = root.sub(1), ops = root.sub(2), srcg = root.sub(3);
    // source
    std::vector<std::string> corpus = corpus_xml();
    int sk = (int)srcg.below(10);
    if (prop == "C01") sk = (int)srcg.below(6) + 4;
    bool dgx = prop == "C13" && srcg.chance(1, 5);   // NVSwitch ports for the transforms: corpus file with I/O kept
    if (sk < 7 || corpus.empty()) p.seth("src", "synthetic " + gen_synthetic(srcg));
    else p.seth("src", std::string(sk == 7 ? "xmlbuf " : "xml ") + corpus[srcg.below(corpus.size())]);
    if (dgx) p.seth("src", srcg.chance(1, 2) ? "xml nvidiaDGX2.xml" : "xml power8gpudistances.xml");
    // C01 only (own sub-stream): one synthetic source in eight numbers its PUs with an explicit index list - a seeded permutation, in a third of
    // the cases with one index given twice (the description must then be refused or the list ignored, never loaded as two PUs with one os_index)
    if (prop == "C01" && p.h("src").rfind("synthetic ", 0) == 0) { Rng ig = root.sub(9); if (ig.chance(1, 8)) {
        std::string d = p.h("src").substr(10); unsigned long total = 1; bool ok = true; size_t pos = 0;
        while (pos < d.size()) { size_t e = d.find(' ', pos); if (e == std::string::npos) e = d.size(); std::string tok = d.substr(pos, e - pos); pos = e + 1;
          if (tok.empty() || tok[0] == '[') { if (!tok.empty() && tok.find(']') == std::string::npos) { size_t c = d.find(']', pos); if (c == std::string::npos) { ok = false; break; } pos = c + 1; if (pos < d.size() && d[pos] == ' ') pos++; } continue; }
          size_t col = tok.find(':'); if (col == std::string::npos) { ok = false; break; } total *= strtoul(tok.c_str() + col + 1, nullptr, 10); }
        if (ok && total >= 2 && total <= 64 && d.size() > 3 && d.compare(d.rfind(' ') == std::string::npos ? 0 : d.rfind(' ') + 1, 3, "pu:") == 0) {
          std::vector<unsigned> perm(total); for (unsigned long i = 0; i < total; i++) perm[i] = (unsigned)i; for (unsigned long i = total - 1; i > 0; i--) std::swap(perm[i], perm[ig.below(i + 1)]);
          if (ig.chance(1, 3)) perm[ig.below(total)] = perm[ig.below(total)];
          if (ig.chance(1, 4)) for (auto &x : perm) x = x * 3 + 5;   // sparse numbering
          std::string l; for (unsigned long i = 0; i < total; i++) l += (i ? "," : "") + std::to_string(perm[i]);
          p.seth("src", "synthetic " + d + "(indexes=" + l + ")"); } }
      // ... and one in ten is an UNTYPED description (numbers only, 2-9 levels): the back-end then assigns the level types itself
      else if (ig.chance(1, 10)) { int nl = (int)ig.range(2, 9); std::string d; unsigned long tot = 1; for (int i = 0; i < nl; i++) { unsigned long c = 1 + ig.below(i == nl - 1 ? 3 : 2); if (tot * c > 128) c = 1; tot *= c; d += (i ? " " : "") + std::to_string(c); } p.seth("src", "synthetic " + d); } }
    // a bundled Linux/x86 snapshot (intact) as the source of an ordinary history: native discovery builds states (wide PCI domains, cgroup-restricted
    // sets, offline CPUs, memory-side caches, heterogeneous memory) that no synthetic string or corpus XML holds. Own sub-stream: the other draws are unchanged
    Rng sng = root.sub(4); bool snapsrc = false, snapio = false;
    { size_t ns = snapshot_count();
      static const char *IO_SNAPS[] = {"2pa-pcidomain32bits", "nvidiagpunumanodes", "40intel64-4n10c+pci-conflicts", "32intel64-2p8co2t+8ve", "40intel64-2g2n4c+pcilocality", "32em64t-2n8c+dax+nvme+mic+dimms"};
      bool wants = prop == "C02" || prop == "C05" || prop == "C08" || prop == "C09" || prop == "C12" || prop == "C13" || prop == "C14" || prop == "C15" || prop == "C16" || prop == "C19";
      if (ns && wants && !dgx && sng.chance(1, prop == "C05" ? 6 : 12)) {
        long si = (long)sng.below(ns);
        if (sng.chance(1, 2)) { long k = snapshot_index(IO_SNAPS[sng.below(prop == "C05" ? 4 : 6)]); if (k >= 0) { si = k; snapio = true; } }
        p.seth("src", "snap " + std::to_string(si) + " " + std::to_string(sng.below(4)) + " " + std::to_string(sng.chance(1, 3) ? sng.below(3) + 1 : 0)); snapsrc = true; } }
    (void)snapsrc;
    // configuration: filters and flags
    std::string filters(HWLOC_OBJ_TYPE_MAX, '-'); int fmode = (int)cfg.below(5);
    for (int ty = 0; ty < HWLOC_OBJ_TYPE_MAX; ty++) {
      if (fmode == 1) filters[ty] = '0'; else if (fmode == 2) filters[ty] = '2'; else if (fmode == 3) filters[ty] = (char)('0' + cfg.below(4)); else if (fmode == 4 && cfg.chance(1, 4)) filters[ty] = (char)('0' + cfg.below(4));
    }
    if (prop != "C01" && cfg.chance(3, 4)) filters[HWLOC_OBJ_MISC] = '0';
    if (snapio && sng.chance(3, 4)) { filters[HWLOC_OBJ_PCI_DEVICE] = '0'; filters[HWLOC_OBJ_OS_DEVICE] = '0'; filters[HWLOC_OBJ_BRIDGE] = sng.chance(1, 2) ? '0' : '3'; }   // keep what makes these snapshots special
    if (dgx) { filters[HWLOC_OBJ_PCI_DEVICE] = '0'; filters[HWLOC_OBJ_OS_DEVICE] = '0'; filters[HWLOC_OBJ_BRIDGE] = cfg.chance(1, 2) ? '0' : '3'; }   // histories want Misc objects
    unsigned long flags = 0;
    if (cfg.chance(1, 3)) flags |= HWLOC_TOPOLOGY_FLAG_INCLUDE_DISALLOWED;
    if (cfg.chance(1, 6)) flags |= HWLOC_TOPOLOGY_FLAG_IMPORT_SUPPORT;
    if (cfg.chance(1, 8)) flags |= HWLOC_TOPOLOGY_FLAG_NO_DISTANCES;
    if (cfg.chance(1, 8)) flags |= HWLOC_TOPOLOGY_FLAG_NO_MEMATTRS;
    if (cfg.chance(1, 8)) flags |= HWLOC_TOPOLOGY_FLAG_NO_CPUKINDS;
    if (cfg.chance(1, 10)) flags |= HWLOC_TOPOLOGY_FLAG_DONT_CHANGE_BINDING;
    if (cfg.chance(1, 25)) flags |= 1UL << 20;   // illegal flag word: set_flags must refuse and leave the configuration alone
    // IS_THISSYSTEM on a synthetic/XML source (own sub-stream, 1 run in 6): the only effect in this machine is that the topology installs the native
    // binding hooks and advertises their support bits (no binding call is ever made here) - non-zero cpubind/membind support bytes for dup, XML
    // import/export with IMPORT_SUPPORT and shared-memory adoption to carry. allow(LOCAL_RESTRICTIONS) is not issued on such a replica (ops_core.cc).
    { Rng tsg = root.sub(6); bool ts = tsg.chance(1, 6); if (ts && !snapsrc && (prop == "C02" || prop == "C05" || prop == "C12" || prop == "C19")) flags |= HWLOC_TOPOLOGY_FLAG_IS_THISSYSTEM; }
    char fb[32]; snprintf(fb, sizeof fb, "0x%lx", flags);
    // lazy runs (per-op observation is tree-only, so distances / memattr caches invalidated by one op stay invalid until the next op that needs them):
    // a third of the runs; two thirds for the properties whose accessors are the ones that find those caches invalid (no extra draw: a bit of the seed)
    bool lazy = cfg.chance(1, 3); if ((prop == "C13" || prop == "C14" || prop == "C15") && ((seed >> 17) & 1)) lazy = true;
    std::string cfgline = "filters=" + filters + " flags=" + fb + " lazy=" + std::to_string(lazy ? 1 : 0) + " postcfg=" + std::to_string(cfg.chance(1, 4) ? 1 : 0) + " udmarkup=" + std::to_string(cfg.chance(1, 4) ? 1 : 0);
    p.seth("cfg", cfgline);
    // op alphabet with per-property weights; a random third of the kinds is disabled per run (swarm)
    struct W { const char *k; int w; };
    std::vector<W> al = {{"restrict", 6}, {"insert_misc", 4}, {"group", 5}, {"allow", 2}, {"add_info", 2}, {"modify_infos", 3}, {"topo_info", 1}, {"set_subtype", 2}, {"refresh", 1}, {"set_userdata", 3}};
    al.push_back({"dup", 0}); al.push_back({"xml_restart", 0}); al.push_back({"destroy", 0});
    // 13.. : distances, memattrs, cpukinds
    al.push_back({"dist_add", 2}); al.push_back({"dist_get", 1}); al.push_back({"dist_remove", 1}); al.push_back({"dist_transform", 0});
    al.push_back({"mem_register", 1}); al.push_back({"mem_set", 2}); al.push_back({"mem_query", 1}); al.push_back({"mem_local", 1});
    al.push_back({"kind_register", 2}); al.push_back({"kind_query", 1});
    al.push_back({"diff", 0});   // 23
    al.push_back({"shm_adopt", 0});   // 24
    al.push_back({"battery", 0});     // 25
    al.push_back({"xml_fault", 0}); al.push_back({"diffxml_fault", 0});   // 26, 27
    if (prop == "C06") { al[26].w = 30; al[27].w = 3; al[0].w = 3; al[1].w = 2; al[2].w = 2; al[13].w = 2; al[18].w = 2; al[21].w = 2; al[6].w = 1; al[4].w = 2; al[9].w = 1; }
    if (prop == "C09") { al[25].w = 12; al[0].w = 8; al[2].w = 4; al[1].w = 2; al[10].w = 1; al[11].w = 1; al[24].w = 1; for (size_t i = 13; i < 24; i++) al[i].w = 0; al[13].w = 2; }
    else if (prop != "C01") al[25].w = 1;
    if (prop == "C19") { al[24].w = 7; al[12].w = 3; al[10].w = 1; al[3].w = 4; al[13].w = 2; al[14].w = 2; al[15].w = 1; al[18].w = 2; al[19].w = 2; al[20].w = 1; al[21].w = 2; al[22].w = 1; al[23].w = 1; }
    if (prop == "C02" || prop == "C12" || prop == "C13" || prop == "C14" || prop == "C15") al[24].w = 1;
    if (prop == "C16") { al[23].w = 14; al[0].w = 3; al[10].w = 1; al[11].w = 1; al[13].w = 2; al[18].w = 1; al[21].w = 1; }
    if (prop == "C02") al[23].w = 1;
    if (prop == "C13") { al[13].w = 10; al[14].w = 8; al[15].w = 4; al[16].w = 8; al[0].w = 5; al[10].w = 2; al[11].w = 2; al[3].w = 0; al[7].w = 3; }
    if (prop == "C14") { al[17].w = 4; al[18].w = 12; al[19].w = 8; al[20].w = 5; al[0].w = 5; al[10].w = 2; al[11].w = 2; al[13].w = 0; al[21].w = 0; }
    if (prop == "C15") { al[21].w = 12; al[22].w = 6; al[0].w = 5; al[10].w = 2; al[11].w = 2; al[13].w = 0; al[17].w = 0; al[18].w = 0; }
    if (prop == "C08" || prop == "C01") for (size_t i = 13; i < al.size(); i++) al[i].w = (prop == "C08" && i != 16) ? 1 : 0;
    if (prop == "C08") { al[0].w = 20; al[1].w = 8; }
    if (prop == "C12") { al[10].w = 7; al[11].w = 1; al[12].w = 3; }
    if (prop == "C05") { al[11].w = 7; al[10].w = 1; al[12].w = 2; }
    if (prop == "C02") { al[10].w = 1; al[11].w = 1; al[12].w = 1; }
    al.push_back({"xml_load_cfg", 0});   // 28
    if (prop == "C02") al[28].w = 1;
    if (prop == "C01") {   // half of the runs: load only; the others build a state first and load its XML export under seeded filters/flags
      bool hist = root.sub(5).chance(1, 2);
      for (auto &x : al) x.w = 0;
      if (hist) { al[0].w = 3; al[1].w = 5; al[2].w = 3; al[4].w = 1; al[7].w = 1; al[13].w = 2; al[18].w = 1; al[21].w = 1; al[28].w = 8; }
    }
    for (auto &x : al) { std::string xk = x.k; if (cfg.chance(1, 3) && xk != "restrict" && xk != "dup" && xk != "xml_restart" && xk != "shm_adopt" && xk != "xml_load_cfg") x.w = 0; }
    int total = 0; for (auto &x : al) total += x.w;
    int len = al.empty() ? 0 : (int)cfg.range(3, prop == "C01" ? 10 : tier == "thorough" ? 40 : 25);
    // C14 prologue (own sub-stream, two runs in three): 4-9 set_value calls on the hot attribute before the history proper, so that it holds several
    // targets with several initiators each when the restricts, dups and reloads of the history arrive (measured without it: 1.7 stored values per run,
    // 16 queries in 5 000 runs met an attribute with two targets right after a restrict)
    if (prop == "C14") { Rng pg = root.sub(7); if (pg.chance(2, 3)) { int n = (int)pg.range(4, 9); for (int i = 0; i < n; i++) { Op o("mem_set"); o.set("r", 0).set("obs", (int64_t)pg.below(2)).set("attr", (int64_t)pg.below(55)).set("node", (int64_t)pg.below(100)).set("val", (int64_t)pg.below(50)).set("im", (int64_t)pg.below(7) + 1).set("init", (int64_t)pg.below(100)).set("ik", (int64_t)pg.below(3)); p.ops.push_back(o); } } }
    Rng fq = root.sub(8);
    for (int s = 0; s < len && total; s++) {
      int rr = (int)ops.below(total); const char *k = nullptr; for (auto &x : al) { if (rr < x.w) { k = x.k; break; } rr -= x.w; }
      Op o(k); o.set("r", (int64_t)ops.below(4));
      std::string ks = k;
      if (ks != "dup" && ks != "xml_restart" && ks != "destroy" && ks != "shm_adopt" && ks != "battery" && ks != "xml_fault" && ks != "diffxml_fault" && ks != "xml_load_cfg" && ops.chance(1, 2)) o.set("both", 1);
      if (ks == "xml_fault") o.set("src", (int64_t)ops.below(4)).set("file", (int64_t)ops.below(100)).setu("fs", ops.next()).set("nf", ops.chance(2, 3) ? 0 : (int64_t)ops.below(3)).set("via", (int64_t)ops.below(2)).set("sz", ops.chance(1, 2) ? 0 : (int64_t)ops.below(4)).set("filt", (int64_t)ops.below(8)).set("again", (int64_t)ops.below(2));
      if (ks == "diffxml_fault") o.setu("fs", ops.next()).set("nf", (int64_t)ops.below(2));
      if (ks == "xml_load_cfg") {
        std::string f(HWLOC_OBJ_TYPE_MAX, '-'); int fm = (int)ops.below(5);
        for (int ty = 0; ty < HWLOC_OBJ_TYPE_MAX; ty++) { if (fm == 1) f[ty] = '0'; else if (fm == 2) f[ty] = '2'; else if (fm == 3) f[ty] = (char)('0' + ops.below(4)); else if (fm == 4 && ops.chance(1, 4)) f[ty] = (char)('0' + ops.below(4)); }
        if (ops.chance(1, 2)) f[HWLOC_OBJ_MISC] = '0';
        o.set("via", (int64_t)ops.below(2)).set("v2", (int64_t)ops.below(8)).sets("filt", "f" + f).setu("flags", ops.chance(1, 2) ? 0 : ops.next());
      }
      if (ks == "battery") o.setu("qs", ops.next()).set("nq", (int64_t)ops.below(40));
      if (ks == "shm_adopt") o.set("off", (int64_t)ops.below(4)).set("fault", (int64_t)ops.below(9)).set("hb", (int64_t)ops.below(1000));
      if (ks.rfind("dist_", 0) == 0 || ks.rfind("mem_", 0) == 0 || ks.rfind("kind_", 0) == 0) o.set("obs", (int64_t)ops.below(2));
      if (ks == "dist_add") o.set("kind", (int64_t)ops.below(10)).set("name", (int64_t)ops.below(4)).set("cf", (int64_t)ops.below(1000)).set("n", ops.chance(1, 5) ? (int64_t)ops.below(7) : 2 + (int64_t)ops.below(5)).set("mix", (int64_t)ops.below(1000)).set("ty", ops.chance(2, 3) ? (int64_t)ops.below(3) : (int64_t)ops.below(8)).setu("vs", ops.next()).set("vm", (int64_t)ops.below(3)).set("vf", (int64_t)ops.below(1000)).set("mf", (int64_t)ops.below(12));
      if (ks == "dist_get") o.set("how", (int64_t)ops.below(4)).set("kf", (int64_t)ops.below(30)).set("ty", ops.chance(2, 3) ? (int64_t)ops.below(3) : (int64_t)ops.below(8)).set("name", (int64_t)ops.below(2)).set("cap", (int64_t)ops.below(1000));
      if (ks == "dist_remove") o.set("w", (int64_t)ops.below(3)).set("all", (int64_t)ops.below(4)).set("ty", (int64_t)ops.below(8)).set("idx", (int64_t)ops.below(100));
      if (ks == "dist_transform") o.set("idx", (int64_t)ops.below(100)).set("tr", (int64_t)ops.below(4)).set("holes", (int64_t)ops.below(100));
      if (ks == "mem_register") o.set("name", (int64_t)ops.below(4)).set("fl", (int64_t)ops.below(8));
      if (ks == "mem_set") o.set("attr", (int64_t)ops.below(100)).set("node", (int64_t)ops.below(100)).set("val", (int64_t)ops.below(100)).set("im", (int64_t)ops.below(8)).set("init", (int64_t)ops.below(100)).set("ik", (int64_t)ops.below(3));
      if (ks == "mem_query") o.set("attr", (int64_t)ops.below(100)).set("sub", (int64_t)ops.below(2)).set("cap", (int64_t)ops.below(100)).set("pu", (int64_t)ops.below(1000)).set("tg", (int64_t)ops.below(100));
      if (ks == "mem_local") o.set("fl", (int64_t)ops.below(9)).set("byobj", (int64_t)ops.below(2)).set("o", (int64_t)ops.below(1000)).set("mode", ops.chance(1, 2) ? 1 : (int64_t)ops.below(9)).setu("bits", ops.next());
      if (ks == "kind_register") o.set("mode", (int64_t)ops.below(7)).set("sm", (int64_t)ops.below(2)).setu("bits", ops.next()).set("eff", (int64_t)ops.below(8)).set("fl", (int64_t)ops.below(1000)).set("ni", (int64_t)ops.below(4)).setu("is", ops.next());
      if (ks == "kind_query") o.set("a", (int64_t)ops.below(100));
      if (ks == "diff") o.setu("es", ops.next()).set("ne", ops.chance(1, 6) ? 0 : (int64_t)ops.below(5)).set("xml", (int64_t)ops.below(4)).set("poison", (int64_t)ops.below(3)).set("chain", (int64_t)ops.below(2)).set("pn", (int64_t)ops.below(50)).set("pk", (int64_t)ops.below(4));
      if (ks == "xml_restart") o.set("via", (int64_t)ops.below(2)).set("v2", (int64_t)ops.below(8)).set("pre", (int64_t)ops.below(3));
      if (ks == "restrict") {
        int fl = 0; bool bynode = ops.chance(1, 3);
        if (bynode) { fl |= 8; if (ops.chance(1, 2)) fl |= 16; } else if (ops.chance(1, 2)) fl |= 1;
        if (ops.chance(1, 2)) fl |= 2; if (ops.chance(1, 2)) fl |= 4;
        if (ops.chance(1, 12)) fl = (int)ops.below(64);   // any flag word, also inconsistent ones and an unknown bit
        int mode = ops.chance(3, 5) ? (ops.chance(1, 2) ? 0 : 8) : (int)ops.below(9);
        o.set("mode", mode).setu("bits", ops.next()).set("flags", fl);
      } else if (ks == "insert_misc") o.set("p", (int64_t)ops.below(1000)).set("n", (int64_t)ops.below(100000));
      else if (ks == "group") o.set("how", (int64_t)ops.below(6)).set("n", (int64_t)ops.below(3)).set("o", (int64_t)ops.below(1000)).set("stride", (int64_t)ops.below(3) + 1).set("mode", (int64_t)ops.below(9)).setu("bits", ops.next()).set("dm", (int64_t)ops.below(2)).set("kind", (int64_t)ops.below(8)).set("free", (int64_t)ops.below(100));
      else if (ks == "allow") o.set("mode", (int64_t)ops.below(5)).set("cm", ops.chance(1, 2) ? 0 : (int64_t)ops.below(9)).set("nm", ops.chance(1, 2) ? 0 : (int64_t)ops.below(9)).setu("bits", ops.next()).set("give", (int64_t)ops.below(1000));
      else if (ks == "add_info") o.set("o", (int64_t)ops.below(1000)).set("name", (int64_t)ops.below(10)).set("v", (int64_t)ops.below(100000));
      else if (ks == "modify_infos" || ks == "topo_info") o.set("o", (int64_t)ops.below(1000)).set("name", (int64_t)ops.below(10)).set("v", (int64_t)ops.below(100000)).set("op", (int64_t)ops.below(5)).set("nul", (int64_t)ops.below(8));
      else if (ks == "set_subtype") o.set("o", (int64_t)ops.below(1000)).set("v", (int64_t)ops.below(100000)).set("io", (int64_t)ops.below(2));
      else if (ks == "set_userdata") o.set("o", (int64_t)ops.below(1000)).set("tok", (int64_t)ops.below(100000));
      p.ops.push_back(o);
      // the property's own query right behind an invalidating op (restrict, dup, XML restart), on the same replica selector, in half of the cases: the accessor
      // that runs first after the invalidation is the one that meets the stale cache (own sub-stream: the other draws are unchanged)
      if ((prop == "C13" || prop == "C14" || prop == "C15") && (ks == "restrict" || ks == "dup" || ks == "xml_restart")) {
        if (fq.chance(1, 2)) {
          Op q(prop == "C13" ? "dist_get" : prop == "C14" ? "mem_query" : "kind_query"); q.set("r", o.u("r")).set("obs", 0);
          if (prop == "C13") q.set("how", (int64_t)fq.below(4)).set("kf", (int64_t)fq.below(30)).set("ty", (int64_t)fq.below(3)).set("name", (int64_t)fq.below(2)).set("cap", (int64_t)fq.below(1000));
          if (prop == "C14") q.set("attr", (int64_t)fq.below(70)).set("sub", (int64_t)fq.below(2)).set("cap", (int64_t)fq.below(100)).set("pu", (int64_t)fq.below(1000)).set("tg", (int64_t)fq.below(100));
          if (prop == "C15") q.set("a", (int64_t)fq.below(100));
          p.ops.push_back(q);
        }
      }
    }
    // snapshot sources (ops_snapshot.cc). Generated apart from the alphabet above so that the plans of the other properties keep their draws.
    size_t nsnap = snapshot_count();
    auto snap_args = [&](Op &o, Rng &g, bool faults) {
      std::string f(HWLOC_OBJ_TYPE_MAX, '-'); int fm = (int)g.below(5);   // same filter assignments as the cfg line
      for (int ty = 0; ty < HWLOC_OBJ_TYPE_MAX; ty++) { if (fm == 1) f[ty] = '0'; else if (fm == 2) f[ty] = '2'; else if (fm == 3) f[ty] = (char)('0' + g.below(4)); else if (fm == 4 && g.chance(1, 4)) f[ty] = (char)('0' + g.below(4)); }
      unsigned long fl = 0;
      if (g.chance(1, 3)) fl |= HWLOC_TOPOLOGY_FLAG_INCLUDE_DISALLOWED; if (g.chance(1, 6)) fl |= HWLOC_TOPOLOGY_FLAG_THISSYSTEM_ALLOWED_RESOURCES; if (g.chance(1, 8)) fl |= HWLOC_TOPOLOGY_FLAG_IMPORT_SUPPORT;
      if (g.chance(1, 6)) fl |= HWLOC_TOPOLOGY_FLAG_NO_DISTANCES; if (g.chance(1, 6)) fl |= HWLOC_TOPOLOGY_FLAG_NO_MEMATTRS; if (g.chance(1, 6)) fl |= HWLOC_TOPOLOGY_FLAG_NO_CPUKINDS;
      size_t si = (size_t)g.below(nsnap ? nsnap : 1);
      int nrem = 0; if (faults) { int c = (int)g.below(4); nrem = c == 0 ? 0 : c <= 2 ? (int)g.range(1, 3) : (int)g.range(4, 40); }
      // a CPUID dump is a flat directory of pu<N> files + a summary; hwloc rejects it as soon as any file but the last pu<N> is missing (and then
      // runs CPUID on the host): half of the removal sets drawn for a dump are dropped so that the intact dumps get their share of (c)(d)(e)
      if (nrem && !strcmp(snapshot_kind(si), "x86") && g.chance(1, 2)) nrem = 0;
      o.set("snap", (int64_t)si).set("comp", (int64_t)g.below(4)).set("env", g.chance(1, 3) ? (int64_t)g.below(3) + 1 : 0).set("nrem", nrem).setu("rs", g.next()).sets("filt", "f" + f).setu("flags", fl);
    };
    if (prop == "C18" && nsnap) {
      p.seth("src", "synthetic pack:1 core:2 pu:2");   // the world needs a replica r0; the evaluations are the snapshot loads
      p.ops.clear();
      int n = (int)ops.range(3, 8);
      for (int s = 0; s < n; s++) {
        Op o("snap_load"); snap_args(o, ops, true);
        o.setu("rdperm", ops.chance(1, 4) ? (ops.next() | 1) : 0);
        o.set("check", (ops.chance(1, 2) ? 1 : 0) | (ops.chance(1, 3) ? 2 : 0) | (ops.chance(1, 2) ? 4 : 0) | (ops.chance(1, 2) ? 8 : 0));
        p.ops.push_back(o);
      }
      if (tier == "thorough") {   // the enumerated part of the fault space: chunks drawn by the seed, coverage reported by distinct sets
        for (int s = 0; s < 2; s++) {   // a chunk of 250 pairs in every run (15 000 runs draw 14x the 1 041 chunks), a chunk of singles in an eighth
          bool pair = s == 0; if (!pair && !ops.chance(1, 8)) continue;
          Op o("snap_enum"); snap_args(o, ops, false);
          for (size_t k = 0; k < o.kv.size();) { if (o.kv[k].first == "snap" || o.kv[k].first == "nrem") o.kv.erase(o.kv.begin() + (long)k); else k++; }   // the element is chosen by `from`
          o.sets("which", pair ? "pair" : "single").setu("from", ops.next() >> 1).set("count", pair ? 250 : 40);
          p.ops.push_back(o);
        }
      }
    }
    if (prop == "C01" && nsnap && ops.chance(1, 4)) { Op o("snap_load"); snap_args(o, ops, false); o.set("rdperm", 0).set("check", 0); p.ops.push_back(o); }   // C01 quantifies over snapshot sources too
    return p;
  }

  // ------------------------------------------------------------------ execution
  void run(const Plan &p, Run &r) override {
    World w; w.run = &r; w.cfg.prop = p.prop; w.cfg.lazy = p.hki("cfg", "lazy", 0) != 0;
    int pclass = (int)p.hki("proc", "class", 0); w.cfg.libxml_import = pclass & 1; w.cfg.libxml_export = pclass & 2; w.cfg.ud_markup = p.hki("cfg", "udmarkup", 0) != 0;
    struct Cleanup { World &w; ~Cleanup() { if (w.run->violated || w.run->cut) return; for (int i = 0; i < MAXREP; i++) destroy_replica(w, i); } } cl{w};
    g_step_budget = 2000000000ULL;
    r.curop = "load"; r.curopidx = -1; steps_reset();
    std::string why;
    if (!load_source(w, 0, p, why)) { r.ev("no topology: %s", why.c_str()); return; }
    observe(w, 0, "C01", true);
    models_init(w, 0);
    r.count("loads_ok");
    int idx = 0;
    for (const Op &o : p.ops) {
      r.curop = o.kind; r.curopidx = idx++; r.nops++; steps_reset(); w.cur_ri = -1;
      bool repl_op = o.kind == "dup" || o.kind == "xml_restart" || o.kind == "destroy" || o.kind == "shm_adopt" || o.kind == "xml_load_cfg";
      if (o.kind == "battery") { int bi = w.pick(o.u("r")); if (bi >= 0) { Replica &BR = w.r[bi]; if (!BR.last.ok) observe(w, bi, ""); battery(w, bi, o.u("qs"), (int)(o.u("nq") % 40) + 5); r.ev("battery r%d", bi); } continue; }
      if (o.kind == "xml_fault" || o.kind == "diffxml_fault") { ops_xmlfault(w, o); continue; }
      if (o.kind == "snap_load" || o.kind == "snap_enum") { ops_snapshot(w, o); continue; }
      if (repl_op) { if (!ops_repl(w, o) && !ops_shm(w, o)) r.ev("unknown op %s", o.kind.c_str()); continue; }
      int ri = w.pick(o.u("r")); if (ri < 0) break;
      // twin trial: when an oracle of ANOTHER property (typically C02's well-formedness after a modifying call) fails on a replica whose dup / XML twin is
      // still supposed to be equivalent, the same op is tried on the twin. Same failure there: the defect is the op's, the run is cut as usual.
      // The twin passes: the two replicas were not equivalent (hidden state lost by dup / reload, e.g. the gp_index counter) - that is this run's property.
      int tj0 = w.r[ri].twin; bool twin_ok = tj0 >= 0 && w.r[tj0].live() && w.r[tj0].twin == ri && !w.r[ri].adopted && !w.r[tj0].adopted && w.r[ri].twin_kind != 3;
      std::string town = twin_ok ? (w.r[ri].twin_kind == 1 ? "C12" : "C05") : "";
      auto op_for = [&](int tj) { Op o2 = o; int kth = 0; for (int i = 0; i < tj; i++) kth += w.r[i].live(); for (auto &kv : o2.kv) if (kv.first == "r") kv.second = std::to_string(kth); return o2; };
      try { exec_on(w, o, ri); }
      catch (RunAbort &) {
        if (!(twin_ok && r.cut && !r.violated && w.cfg.prop == town)) throw;
        std::string cb = r.cutby, vd = r.vdetail; r.cut = false; r.count("probe.twin_trial");
        try { exec_on(w, op_for(tj0), tj0); } catch (RunAbort &) { if (!r.violated) { r.cut = true; r.cutby = cb; r.vdetail = vd; } throw; }
        viol(w, town.c_str(), "replica.twin_op_outcome_differs", "%s on r%d broke an oracle of %s (%s) but the same op on its twin r%d, supposed to be equivalent, did not", o.kind.c_str(), ri, cb.c_str(), vd.substr(0, 300).c_str(), tj0);
      }
      if (!w.r[ri].live()) continue;
      int tj = w.r[ri].twin;
      if (tj >= 0 && w.r[tj].live() && w.r[tj].twin == ri) {
        Replica &A = w.r[ri], &T = w.r[tj]; int kind = A.twin_kind; const char *own = kind == 1 ? "C12" : kind == 2 ? "C05" : "C19";
        if (o.u("both") && kind != 3 && !A.adopted && !T.adopted) {   // an adopted replica refuses what its (writable) twin accepts
          // lock-step: the same op on the twin must keep the two replicas equivalent (catches lost hidden state such as next_gp_index or dont_merge)
          Op o2 = op_for(tj);
          try { exec_on(w, o2, tj); }
          catch (RunAbort &) {   // the op passed every oracle on one twin and breaks a foreign one on the other: the twins were not equivalent
            if (!(r.cut && !r.violated && w.cfg.prop == own)) throw;
            std::string cb = r.cutby, vd = r.vdetail; r.cut = false;
            viol(w, own, "replica.twin_op_outcome_differs", "%s passed on r%d but broke an oracle of %s (%s) on its twin r%d, supposed to be equivalent", o.kind.c_str(), ri, cb.c_str(), vd.substr(0, 300).c_str(), tj);
          }
          r.count("probe.lockstep_ops");
          std::string ta = A.last.text_norm(kind != 1), tb = T.last.text_norm(kind != 1);
          bool eq = ta == tb;
          if (!eq) { std::string la, lb; diff_line(ta, tb, la, lb); viol(w, own, "replica.lockstep_diverged", "the same op applied to both twins made them differ: '%s' vs '%s'", la.substr(0, 700).c_str(), lb.substr(0, 700).c_str()); }
        } else {
          // an op applied to one twin only ends the twin relation, unless it is a pure query (per-op dumps may be tree-only in lazy runs,
          // so "nothing visible changed" is not evidence that nothing changed)
          bool query = o.kind == "dist_get" || o.kind == "mem_query" || o.kind == "kind_query" || o.kind == "mem_local" || o.kind == "diff" || o.kind == "dist_transform";
          bool eq = kind != 3 && query && A.last.text_norm(kind != 1) == T.last.text_norm(kind != 1);
          if (!eq) { A.twin = T.twin = -1; }
        }
      }
    }
    r.curop = "destroy"; r.curopidx = idx;
  }
};


}  // namespace hwsim

int main(int argc, char **argv) { hwsim::TopoMachine m; return hwsim::worker_main(argc, argv, m); }
