// Sources of initial topologies and the configuration phase (filters, flags).
#include "world.h"
#include <dirent.h>
#include <algorithm>
#include <sstream>

namespace hwsim {

std::string repo_path() { const char *r = getenv("HWSIM_REPO"); return r && *r ? r : "/repo"; }

std::vector<std::string> corpus_xml() {
  static std::vector<std::string> v;
  if (!v.empty()) return v;
  std::string d = repo_path() + "/tests/hwloc/xml";
  DIR *dir = opendir(d.c_str());
  if (dir) { while (struct dirent *e = readdir(dir)) { std::string n = e->d_name; if (n.size() > 4 && n.substr(n.size() - 4) == ".xml") v.push_back(n); } closedir(dir); }
  std::sort(v.begin(), v.end());   // directory order never enters a plan
  return v;
}

// grammar-generated synthetic descriptions: <= 7 levels, <= 256 PUs, NUMA as level and/or attached, memory/cache sizes
std::string gen_synthetic(Rng &g) {
  struct L { const char *name; int pct; };
  static const L order[] = {{"group", 25}, {"pack", 70}, {"group", 15}, {"die", 25}, {"l3", 40}, {"l2", 30}, {"core", 75}, {"l1", 25}, {"group", 15}};
  std::vector<std::string> lv; unsigned total = 1;
  int numa_mode = (int)g.below(4);   // 0: one attached at root (implicit), 1: a numa level, 2: attached somewhere, 3: attached at two places
  std::vector<int> chosen; for (int i = 0; i < 9; i++) if ((int)g.below(100) < order[i].pct) chosen.push_back(i);
  int numa_pos = chosen.empty() ? 0 : (int)g.below(chosen.size() + 1);
  int att1 = chosen.empty() ? -1 : (int)g.below(chosen.size()), att2 = chosen.empty() ? -1 : (int)g.below(chosen.size());
  auto mem = [&]() -> std::string { static const char *m[] = {"", "(memory=1GB)", "(memory=512MB)", "(memory=0)", "(memory=4096kB)", "(memory=1GB memorysidecachesize=64MB)", "(memorysidecachesize=256MB)"}; return m[g.below(g.chance(1, 4) ? 7 : 5)]; };
  for (size_t k = 0; k <= chosen.size(); k++) {
    if (numa_mode == 1 && (int)k == numa_pos) { unsigned c = 1 + (unsigned)g.below(4); if (total * c <= 64) { total *= c; lv.push_back("numa:" + std::to_string(c) + mem()); } }
    if (k == chosen.size()) break;
    const L &l = order[chosen[k]]; unsigned c = 1 + (unsigned)g.below(g.chance(1, 6) ? 6 : 3); if (total * c > 128) c = 1; total *= c;
    std::string s = std::string(l.name) + ":" + std::to_string(c);
    if (l.name[0] == 'l' && g.chance(1, 3)) s += g.chance(1, 2) ? "(size=32kB)" : "(size=8MB)";
    lv.push_back(s);
    if ((numa_mode >= 2 && (int)k == att1) || (numa_mode == 3 && (int)k == att2)) { lv.push_back("[numa" + mem() + "]"); if (g.chance(1, 5)) lv.push_back("[numa" + mem() + "]"); }
  }
  unsigned pc = 1 + (unsigned)g.below(g.chance(1, 8) ? 8 : 3); if (total * pc > 256) pc = 1;
  lv.push_back("pu:" + std::to_string(pc));
  std::string s; for (auto &x : lv) { if (!s.empty()) s += " "; s += x; }
  return s;
}

std::string sel_string(uint64_t sel, int maxlen) {
  static const char alpha[] = "abcXYZ019 _-&<>\"'\t\n\r=%;:/.#";
  Rng g(sel); int n = (int)g.below(maxlen + 1); std::string s;
  for (int i = 0; i < n; i++) s += g.chance(2, 3) ? alpha[g.below(6)] : alpha[g.below(sizeof alpha - 1)];
  return s;
}

// plan header:
//   src  synthetic <string> | xml <corpus basename> | xmlbuf <corpus basename>
//   cfg  filters=<20 digits, '-' = leave default> flags=<hex> k=v ...
bool load_source(World &w, int ri, const Plan &p, std::string &why) {
  Replica &R = w.r[ri];
  hwloc_topology_t t = nullptr;
  if (hwloc_topology_init(&t) < 0) { why = "init failed"; return false; }
  std::string src = p.h("src"); std::string kind = src.substr(0, src.find(' ')), arg = src.find(' ') == std::string::npos ? "" : src.substr(src.find(' ') + 1);
  std::string filters = p.hk("cfg", "filters", "");
  unsigned long flags = (unsigned long)p.hki("cfg", "flags", 0);
  Run &r = *w.run;
  // configuration phase: calls that must be refused leave the configuration unchanged
  int rc = 0;
  for (size_t ty = 0; ty < filters.size() && ty < HWLOC_OBJ_TYPE_MAX; ty++) {
    if (filters[ty] < '0' || filters[ty] > '3') continue;
    enum hwloc_type_filter_e before, after, f = (enum hwloc_type_filter_e)(filters[ty] - '0');
    hwloc_topology_get_type_filter(t, (hwloc_obj_type_t)ty, &before);
    errno = 0; rc = hwloc_topology_set_type_filter(t, (hwloc_obj_type_t)ty, f); int e = errno;
    hwloc_topology_get_type_filter(t, (hwloc_obj_type_t)ty, &after);
    r.ev("set_type_filter %zu %d -> %d e=%d now=%d", ty, (int)f, rc, rc ? e : 0, (int)after);
    if (rc < 0 && after != before) viol0(w, "C01", "cfg.refused_filter_changed_config", "set_type_filter(%s, %d) failed (errno %d) but the filter moved from %d to %d", hwloc_obj_type_string((hwloc_obj_type_t)ty), (int)f, e, (int)before, (int)after);
    if (rc < 0) r.count("probe.cfg_filter_refused");
  }
  unsigned long fbefore = hwloc_topology_get_flags(t);
  errno = 0; rc = hwloc_topology_set_flags(t, flags);
  r.ev("set_flags 0x%lx -> %d", flags, rc);
  if (rc < 0) { r.count("probe.cfg_flags_refused"); if (hwloc_topology_get_flags(t) != fbefore) viol0(w, "C01", "cfg.refused_flags_changed_config", "set_flags(0x%lx) failed but flags changed", flags); }
  R.flags = hwloc_topology_get_flags(t);
  if (kind == "synthetic") rc = hwloc_topology_set_synthetic(t, arg.c_str());
  else if (kind == "xml") rc = hwloc_topology_set_xml(t, (repo_path() + "/tests/hwloc/xml/" + arg).c_str());
  else if (kind == "xmlbuf") {
    std::string path = repo_path() + "/tests/hwloc/xml/" + arg; FILE *f = fopen(path.c_str(), "rb"); std::string buf;
    if (f) { char tmp[65536]; size_t n; while ((n = fread(tmp, 1, sizeof tmp, f)) > 0) buf.append(tmp, n); fclose(f); }
    // With IMPORT_SUPPORT, half of the corpus buffers (a bit of the seed) are given a <support> section naming EVERY support bit of the three public
    // structures (the names are those of the struct members in hwloc.h): the only way a topology can advertise bits that no Linux back-end sets
    // (e.g. membind.nexttouch_membind), for dup, XML export/import and adoption to carry
    if ((flags & HWLOC_TOPOLOGY_FLAG_IMPORT_SUPPORT) && ((p.seed >> 31) & 1) && (w.cfg.is("C05") || w.cfg.is("C12") || w.cfg.is("C19"))) {
      static const char *NAMES[] = {"discovery.pu", "discovery.numa", "discovery.numa_memory", "discovery.disallowed_pu", "discovery.disallowed_numa", "discovery.cpukind_efficiency",
        "cpubind.set_thisproc_cpubind", "cpubind.get_thisproc_cpubind", "cpubind.set_proc_cpubind", "cpubind.get_proc_cpubind", "cpubind.set_thisthread_cpubind", "cpubind.get_thisthread_cpubind",
        "cpubind.set_thread_cpubind", "cpubind.get_thread_cpubind", "cpubind.get_thisproc_last_cpu_location", "cpubind.get_proc_last_cpu_location", "cpubind.get_thisthread_last_cpu_location",
        "membind.set_thisproc_membind", "membind.get_thisproc_membind", "membind.set_proc_membind", "membind.get_proc_membind", "membind.set_thisthread_membind", "membind.get_thisthread_membind",
        "membind.set_area_membind", "membind.get_area_membind", "membind.alloc_membind", "membind.firsttouch_membind", "membind.bind_membind", "membind.interleave_membind",
        "membind.nexttouch_membind", "membind.migrate_membind", "membind.get_area_memlocation", "membind.weighted_interleave_membind"};
      std::string out; size_t pos = 0; while (pos < buf.size()) { size_t e = buf.find('\n', pos); if (e == std::string::npos) e = buf.size(); std::string line = buf.substr(pos, e - pos); pos = e + 1; if (line.find("<support ") == std::string::npos) out += line + "\n"; }
      size_t end = out.rfind("</topology>");
      if (end != std::string::npos) { std::string sup; for (auto n : NAMES) sup += std::string("  <support name=\"") + n + "\"/>\n"; out.insert(end, sup); buf = out; r.count("probe.source_with_every_support_bit"); }
    }
    rc = hwloc_topology_set_xmlbuffer(t, buf.c_str(), (int)buf.size() + 1);
  } else if (kind == "snap") rc = snapshot_count() ? 0 : -1;   // "snap <index> <comp> [<env>]": an intact bundled Linux/x86 snapshot (ops_snapshot.cc); configured by the environment at load time
  else { why = "unknown source kind " + kind; hwloc_topology_destroy(t); return false; }
  r.ev("set_source %s -> %d", kind.c_str(), rc);
  if (rc < 0) { why = "source refused"; hwloc_topology_destroy(t); r.count("probe.source_refused"); return false; }
  if (kind == "snap") { unsigned long si = 0, comp = 0, env = 0; sscanf(arg.c_str(), "%lu %lu %lu", &si, &comp, &env); std::string desc; rc = snapshot_load(t, si, (unsigned)comp, (unsigned)env, &desc); r.ev("snapshot %s", desc.c_str()); }
  else rc = hwloc_topology_load(t);
  r.ev("load -> %d", rc);
  if (rc < 0) { why = "load failed"; hwloc_topology_destroy(t); r.count("probe.load_failed"); return false; }
  // calls after load must be refused with EBUSY and leave the configuration as it is
  if (p.hki("cfg", "postcfg", 0)) {
    errno = 0; int rc2 = hwloc_topology_set_flags(t, flags ^ HWLOC_TOPOLOGY_FLAG_NO_DISTANCES);
    if (rc2 == 0 || hwloc_topology_get_flags(t) != R.flags) viol0(w, "C01", "cfg.set_after_load", "set_flags after load returned %d (errno %d) flags now 0x%lx", rc2, errno, hwloc_topology_get_flags(t));
    errno = 0; rc2 = hwloc_topology_set_type_filter(t, HWLOC_OBJ_CORE, HWLOC_TYPE_FILTER_KEEP_NONE);
    enum hwloc_type_filter_e f; hwloc_topology_get_type_filter(t, HWLOC_OBJ_CORE, &f);
    if (rc2 == 0) viol0(w, "C01", "cfg.set_after_load", "set_type_filter after load succeeded");
    rc2 = hwloc_topology_set_synthetic(t, "pu:2");
    if (rc2 == 0) viol0(w, "C01", "cfg.set_after_load", "set_synthetic after load succeeded");
    r.count("probe.cfg_after_load_refused");
  }
  R = Replica(); R.t = t; R.flags = hwloc_topology_get_flags(t); R.loaded_from = kind == "synthetic" ? 0 : kind == "snap" ? 5 : 1;
  return true;
}

}  // namespace hwsim
