// Independent well-formedness checker: exactly the clauses of property C01, written against the public
// API (object pointers, level lookups) and the harness set type. Returns the first violated clause.
#include "dump.h"
#include <set>

namespace hwsim {

namespace {
struct Ctx {
  hwloc_topology_t t; const Dump &d; std::string err;
  std::set<unsigned> pu_os, numa_os; std::map<int, std::vector<hwloc_obj_t>> bylevel;
  Ctx(hwloc_topology_t t_, const Dump &d_) : t(t_), d(d_) {}
  bool fail(const char *clause, const char *fmt, ...) __attribute__((format(printf, 3, 4))) {
    if (!err.empty()) return false;
    char b[1024]; va_list ap; va_start(ap, fmt); vsnprintf(b, sizeof b, fmt, ap); va_end(ap);
    err = std::string(clause) + ": " + b; return false;
  }
};
const char *tn(hwloc_obj_t o) { return hwloc_obj_type_string(o->type); }

void check_list(Ctx &c, hwloc_obj_t parent, hwloc_obj_t first, unsigned arity, int kind) {
  unsigned i = 0; hwloc_obj_t prev = nullptr;
  for (hwloc_obj_t o = first; o; prev = o, o = o->next_sibling, i++) {
    if (o->parent != parent) c.fail("wf.links", "%s gp=%llu: parent pointer does not point to the object that lists it as child", tn(o), (unsigned long long)o->gp_index);
    if (o->sibling_rank != i) c.fail("wf.links", "%s gp=%llu: sibling_rank %u at position %u", tn(o), (unsigned long long)o->gp_index, o->sibling_rank, i);
    if (o->prev_sibling != prev) c.fail("wf.links", "%s gp=%llu: prev_sibling", tn(o), (unsigned long long)o->gp_index);
    bool ok = kind == 0 ? type_is_normal(o->type) : kind == 1 ? type_is_memory(o->type) : kind == 2 ? type_is_io(o->type) : o->type == HWLOC_OBJ_MISC;
    if (!ok) c.fail("wf.links", "%s in child list %d of %s", tn(o), kind, tn(parent));
    if (kind == 0 && (!parent->children || i >= arity || parent->children[i] != o)) c.fail("wf.links", "children[] array of %s gp=%llu disagrees with the sibling list at %u", tn(parent), (unsigned long long)parent->gp_index, i);
    if (i > 1000000) break;
  }
  if (i != arity) c.fail("wf.links", "%s gp=%llu: arity %u but %u children in list %d", tn(parent), (unsigned long long)parent->gp_index, arity, i, kind);
  if (kind == 0 && c.err.empty()) {
    if ((arity == 0) != (parent->first_child == nullptr)) c.fail("wf.links", "first_child vs arity");
    else if (arity && (parent->last_child != parent->children[arity - 1] || parent->first_child != parent->children[0])) c.fail("wf.links", "first/last_child of %s gp=%llu", tn(parent), (unsigned long long)parent->gp_index);
  }
}

uint64_t walk(Ctx &c, hwloc_obj_t o, const BSet &inherited) {
  if (!c.err.empty()) return 0;
  const ObjRec *r = c.d.find(o->gp_index);
  if (!r) { c.fail("wf.links", "object not in dump"); return 0; }
  enum hwloc_type_filter_e f = (enum hwloc_type_filter_e)c.d.filters[o->type];
  if (f == HWLOC_TYPE_FILTER_KEEP_NONE) c.fail("wf.filtered_type", "%s gp=%llu present although its type is filtered out", tn(o), (unsigned long long)o->gp_index);
  c.bylevel[o->depth].push_back(o);
  bool special = type_is_io(o->type) || o->type == HWLOC_OBJ_MISC;
  const BSet &cs = r->cs, &ccs = r->ccs, &ns = r->ns, &cns = r->cns;
  if (special) { if (o->cpuset || o->complete_cpuset || o->nodeset || o->complete_nodeset) c.fail("wf.set_inclusion", "%s gp=%llu (I/O or Misc) carries sets", tn(o), (unsigned long long)o->gp_index); }
  else {
    if (!o->cpuset || !o->complete_cpuset || !o->nodeset || !o->complete_nodeset) { c.fail("wf.set_inclusion", "%s gp=%llu lacks one of its four sets", tn(o), (unsigned long long)o->gp_index); return 0; }
    if (!cs.subset_of(ccs)) c.fail("wf.set_inclusion", "%s gp=%llu: cpuset %s not included in complete_cpuset %s", tn(o), (unsigned long long)o->gp_index, cs.str().c_str(), ccs.str().c_str());
    if (!ns.subset_of(cns)) c.fail("wf.set_inclusion", "%s gp=%llu: nodeset %s not included in complete_nodeset %s", tn(o), (unsigned long long)o->gp_index, ns.str().c_str(), cns.str().c_str());
    if (o->parent) {
      const ObjRec *p = c.d.find(o->parent->gp_index);
      if (p && p->hassets) {
        if (!cs.subset_of(p->cs) || !ccs.subset_of(p->ccs)) c.fail("wf.set_inclusion", "%s gp=%llu: cpusets (%s / %s) not included in parent's (%s / %s)", tn(o), (unsigned long long)o->gp_index, cs.str().c_str(), ccs.str().c_str(), p->cs.str().c_str(), p->ccs.str().c_str());
        if (!type_is_memory(o->type) && (!ns.subset_of(p->ns) || !cns.subset_of(p->cns))) c.fail("wf.set_inclusion", "%s gp=%llu: nodesets not included in parent's", tn(o), (unsigned long long)o->gp_index);
      }
    }
  }
  if (o->type == HWLOC_OBJ_PU) {
    // own clause id for the main set: every back-end, the XML importer included, verifies that a PU's cpuset is exactly its os_index
    if (cs != BSet::single(o->os_index)) c.fail("wf.pu_cpuset_singleton", "PU os=%u has cpuset %s", o->os_index, cs.str().c_str());
    if (cs != BSet::single(o->os_index) || ccs != BSet::single(o->os_index)) c.fail("wf.cpuset_union", "PU os=%u has cpuset %s / complete %s", o->os_index, cs.str().c_str(), ccs.str().c_str());
    if (!c.pu_os.insert(o->os_index).second) c.fail("wf.unique_index", "duplicate PU os_index %u", o->os_index);
    if (o->arity || o->memory_arity) c.fail("wf.pu_level", "PU with normal or memory children");
    if (!(c.d.flags & HWLOC_TOPOLOGY_FLAG_INCLUDE_DISALLOWED) && !c.d.acs.has(o->os_index)) c.fail("wf.allowed", "disallowed PU %u present without INCLUDE_DISALLOWED", o->os_index);
  }
  if (o->type == HWLOC_OBJ_NUMANODE) {
    if (ns != BSet::single(o->os_index)) c.fail("wf.numa_nodeset_singleton", "NUMA os=%u has nodeset %s", o->os_index, ns.str().c_str());   // likewise verified by every back-end
    if (ns != BSet::single(o->os_index) || cns != BSet::single(o->os_index)) c.fail("wf.nodeset_union", "NUMA os=%u has nodeset %s / complete %s", o->os_index, ns.str().c_str(), cns.str().c_str());
    if (!c.numa_os.insert(o->os_index).second) c.fail("wf.unique_index", "duplicate NUMA os_index %u", o->os_index);
    if (o->arity || o->memory_arity) c.fail("wf.links", "NUMA node with normal or memory children");
  }
  if (type_is_memory(o->type) && o->parent) { const ObjRec *p = c.d.find(o->parent->gp_index); if (p && cs != p->cs) c.fail("wf.memchild_cpuset", "%s gp=%llu cpuset %s differs from its parent's %s", tn(o), (unsigned long long)o->gp_index, cs.str().c_str(), p->cs.str().c_str()); }
  if (o->type >= HWLOC_OBJ_L1CACHE && o->type <= HWLOC_OBJ_L3ICACHE && o->attr) {
    unsigned dep = o->attr->cache.depth; bool icache = o->type >= HWLOC_OBJ_L1ICACHE;
    int exp = icache ? HWLOC_OBJ_L1ICACHE + (int)dep - 1 : HWLOC_OBJ_L1CACHE + (int)dep - 1;
    if (exp != (int)o->type) c.fail("wf.attr_type", "cache depth attribute %u does not match type %s", dep, tn(o));
    if (icache != (o->attr->cache.type == HWLOC_OBJ_CACHE_INSTRUCTION)) c.fail("wf.attr_type", "cache type attribute %d does not match type %s", (int)o->attr->cache.type, tn(o));
  }
  if (!o->attr) c.fail("wf.attr_type", "%s without attr", tn(o));
  check_list(c, o, o->first_child, o->arity, 0); check_list(c, o, o->memory_first_child, o->memory_arity, 1);
  check_list(c, o, o->io_first_child, o->io_arity, 2); check_list(c, o, o->misc_first_child, o->misc_arity, 3);
  if (type_is_memory(o->type) && (o->first_child || o->io_first_child)) c.fail("wf.links", "memory object with normal or I/O children");
  if (type_is_io(o->type) && (o->first_child || o->memory_first_child)) c.fail("wf.links", "I/O object with normal or memory children");
  if (o->type == HWLOC_OBJ_MISC && (o->first_child || o->memory_first_child || o->io_first_child)) c.fail("wf.links", "Misc object with non-Misc children");
  if (!c.err.empty()) return 0;

  uint64_t total = o->type == HWLOC_OBJ_NUMANODE && o->attr ? o->attr->numanode.local_memory : 0;
  BSet un, local;
  for (hwloc_obj_t m = o->memory_first_child; m; m = m->next_sibling) { const ObjRec *mr = c.d.find(m->gp_index); if (!mr) continue; if (mr->ns.intersects(local)) c.fail("wf.nodeset_union", "memory children of %s gp=%llu have overlapping nodesets", tn(o), (unsigned long long)o->gp_index); local = local | mr->ns; }
  if (!special && !type_is_memory(o->type) && local.intersects(inherited)) c.fail("wf.nodeset_union", "%s gp=%llu: locally attached nodes %s already inherited from above", tn(o), (unsigned long long)o->gp_index, local.str().c_str());
  BSet down = inherited | local, childnodes;
  for (hwloc_obj_t ch = o->first_child; ch; ch = ch->next_sibling) {
    const ObjRec *cr = c.d.find(ch->gp_index); if (!cr) continue;
    if (cr->cs.intersects(un)) c.fail("wf.cpuset_union", "children of %s gp=%llu have overlapping cpusets", tn(o), (unsigned long long)o->gp_index);
    un = un | cr->cs;
    if (ch->depth <= o->depth) c.fail("wf.levels", "child depth %d not below parent depth %d", ch->depth, o->depth);
    total += walk(c, ch, down);
    BSet extra = cr->ns - down; if (extra.intersects(childnodes)) c.fail("wf.nodeset_union", "children of %s gp=%llu bring overlapping nodesets", tn(o), (unsigned long long)o->gp_index); childnodes = childnodes | extra;
  }
  for (hwloc_obj_t m = o->memory_first_child; m; m = m->next_sibling) total += walk(c, m, down);
  for (hwloc_obj_t ch = o->io_first_child; ch; ch = ch->next_sibling) walk(c, ch, down);
  for (hwloc_obj_t ch = o->misc_first_child; ch; ch = ch->next_sibling) walk(c, ch, down);
  if (type_is_normal(o->type) && o->type != HWLOC_OBJ_PU) {
    if (un != cs) c.fail("wf.cpuset_union", "%s gp=%llu: cpuset %s is not the union of its children's %s", tn(o), (unsigned long long)o->gp_index, cs.str().c_str(), un.str().c_str());
    BSet expn = down | childnodes;
    if (expn != ns) c.fail("wf.nodeset_union", "%s gp=%llu: nodeset %s != inherited+local+children %s", tn(o), (unsigned long long)o->gp_index, ns.str().c_str(), expn.str().c_str());
  }
  if (!special && total != o->total_memory) c.fail("wf.total_memory", "%s gp=%llu: total_memory %llu but NUMA local memory below sums to %llu", tn(o), (unsigned long long)o->gp_index, (unsigned long long)o->total_memory, (unsigned long long)total);
  return o->total_memory;
}
}  // namespace

std::string wf_check(hwloc_topology_t t, const Dump &d) {
  Ctx c(t, d);
  if (!d.ok) { if (d.broken.rfind("duplicate gp_index", 0) == 0) return "wf.unique_index: " + d.broken; return "wf.links: " + d.broken; }
  hwloc_obj_t root = hwloc_get_root_obj(t);
  if (!root || root->type != HWLOC_OBJ_MACHINE || root->parent || root->depth != 0 || root->next_sibling || root->prev_sibling) return "wf.root: root is not a single parentless Machine at depth 0";
  int depth = hwloc_topology_get_depth(t);
  if (depth < 2) return "wf.pu_level: topology depth " + std::to_string(depth);
  if (hwloc_get_depth_type(t, depth - 1) != HWLOC_OBJ_PU) return "wf.pu_level: deepest normal level is not PU";
  if (hwloc_get_nbobjs_by_depth(t, 0) != 1) return "wf.root: root level width != 1";
  if (hwloc_get_nbobjs_by_type(t, HWLOC_OBJ_NUMANODE) < 1) return "wf.numa: no NUMA node";
  if (hwloc_get_nbobjs_by_type(t, HWLOC_OBJ_PU) < 1) return "wf.pu_level: no PU";
  walk(c, root, BSet());
  if (!c.err.empty()) return c.err;
  const ObjRec *rr = d.find(root->gp_index);
  if (d.flags & HWLOC_TOPOLOGY_FLAG_INCLUDE_DISALLOWED) { if (!d.acs.subset_of(rr->cs) || !d.ans.subset_of(rr->ns)) return "wf.allowed: allowed sets not included in the root sets"; }
  else if (d.acs != rr->cs || d.ans != rr->ns) return "wf.allowed: allowed sets (" + d.acs.str() + " / " + d.ans.str() + ") differ from the root sets (" + rr->cs.str() + " / " + rr->ns.str() + ") without INCLUDE_DISALLOWED";
  if (d.tcs != rr->cs || d.tccs != rr->ccs || d.tns != rr->ns || d.tcns != rr->cns) return "wf.root: topology set getters disagree with the root object";
  // levels
  static const int sd[] = {HWLOC_TYPE_DEPTH_NUMANODE, HWLOC_TYPE_DEPTH_BRIDGE, HWLOC_TYPE_DEPTH_PCI_DEVICE, HWLOC_TYPE_DEPTH_OS_DEVICE, HWLOC_TYPE_DEPTH_MISC, HWLOC_TYPE_DEPTH_MEMCACHE};
  std::vector<int> all; for (int i = 0; i < depth; i++) all.push_back(i); for (int s : sd) all.push_back(s);
  for (int dep : all) {
    unsigned w = hwloc_get_nbobjs_by_depth(t, dep); std::vector<hwloc_obj_t> &v = c.bylevel[dep];
    if (w != v.size()) { c.fail("wf.levels", "level %d: width %u but %zu objects of that depth found by walking the tree", dep, w, v.size()); break; }
    hwloc_obj_type_t ty = hwloc_get_depth_type(t, dep); int td = hwloc_get_type_depth(t, ty);
    if (w && td != dep && td != HWLOC_TYPE_DEPTH_MULTIPLE) c.fail("wf.levels", "get_type_depth(get_depth_type(%d)) = %d", dep, td);
    for (unsigned i = 0; i < w && c.err.empty(); i++) {
      hwloc_obj_t o = hwloc_get_obj_by_depth(t, dep, i);
      if (!o) { c.fail("wf.levels", "level %d: hole at index %u", dep, i); break; }
      if (o->depth != dep || o->logical_index != i || o->type != ty) c.fail("wf.levels", "level %d object %u: depth %d logical_index %u type %s", dep, i, o->depth, o->logical_index, tn(o));
      if (o->prev_cousin != (i ? hwloc_get_obj_by_depth(t, dep, i - 1) : nullptr) || o->next_cousin != (i + 1 < w ? hwloc_get_obj_by_depth(t, dep, i + 1) : nullptr)) c.fail("wf.links", "level %d: cousin links at %u", dep, i);
      if (dep >= 0 ? o != v[i] : std::find(v.begin(), v.end(), o) == v.end()) c.fail("wf.levels", "level %d: object %u is not the one found by walking the tree", dep, i);   // special levels: same members, order not promised
    }
    if (hwloc_get_obj_by_depth(t, dep, w)) c.fail("wf.levels", "level %d: object beyond the level width", dep);
    if (!c.err.empty()) return c.err;
  }
  for (auto &lv : c.bylevel) if (lv.first >= depth || (lv.first < 0 && std::find(std::begin(sd), std::end(sd), lv.first) == std::end(sd))) return "wf.levels: object with depth " + std::to_string(lv.first) + " outside every level";
  for (int dep = 1; dep < depth - 1; dep++) { hwloc_obj_type_t ty = hwloc_get_depth_type(t, dep); if (ty == HWLOC_OBJ_PU || ty == HWLOC_OBJ_MACHINE || !type_is_normal(ty)) return std::string("wf.pu_level: level ") + std::to_string(dep) + " has type " + hwloc_obj_type_string(ty); }
  if (!c.err.empty()) return c.err;
  std::string a = hwloc_check_guarded(t);
  if (!a.empty()) return "wf.hwloc_check:" + a + ": hwloc_topology_check() aborted";
  return "";
}

}  // namespace hwsim
