// Harness-side set type for topology oracles: finite or cofinite set of unsigned, extracted once from a
// hwloc bitmap (to_ulongs / nr_ulongs / last_unset); all set algebra afterwards is the harness's own.
#pragma once
#include <hwloc.h>
#include <stdint.h>
#include <string>
#include <vector>
#include <algorithm>

namespace hwsim {

struct BSet {
  std::vector<uint64_t> w; bool inf = false;   // inf: every index >= 64*w.size() is in the set
  void norm() { uint64_t t = inf ? ~0ULL : 0ULL; while (!w.empty() && w.back() == t) w.pop_back(); }
  static BSet from(hwloc_const_bitmap_t b) {
    BSet s; if (!b) return s;
    int n = hwloc_bitmap_nr_ulongs(b);
    if (n < 0) { s.inf = true; int lu = hwloc_bitmap_last_unset(b); n = lu < 0 ? 0 : lu / 64 + 1; }
    if (n > 0) { std::vector<unsigned long> t(n); hwloc_bitmap_to_ulongs(b, (unsigned)n, t.data()); s.w.assign(t.begin(), t.end()); }
    s.norm(); return s;
  }
  hwloc_bitmap_t to_hwloc() const {
    hwloc_bitmap_t b = hwloc_bitmap_alloc();
    for (size_t i = 0; i < w.size(); i++) if (w[i]) hwloc_bitmap_set_ith_ulong(b, (unsigned)i, (unsigned long)w[i]);
    if (inf) hwloc_bitmap_set_range(b, (unsigned)(w.size() * 64), -1);
    return b;
  }
  static BSet single(unsigned i) { BSet s; s.add(i); return s; }
  uint64_t word(size_t i) const { return i < w.size() ? w[i] : (inf ? ~0ULL : 0ULL); }
  bool has(unsigned i) const { return (word(i / 64) >> (i % 64)) & 1; }
  void add(unsigned i) { if (has(i)) return; if (w.size() <= i / 64) w.resize(i / 64 + 1, inf ? ~0ULL : 0ULL); w[i / 64] |= 1ULL << (i % 64); norm(); }
  void del(unsigned i) { if (!has(i)) return; if (w.size() <= i / 64) w.resize(i / 64 + 1, inf ? ~0ULL : 0ULL); w[i / 64] &= ~(1ULL << (i % 64)); norm(); }
  bool empty() const { return !inf && w.empty(); }
  bool operator==(const BSet &o) const { return inf == o.inf && w == o.w; }
  bool operator!=(const BSet &o) const { return !(*this == o); }
  bool operator<(const BSet &o) const { if (inf != o.inf) return inf < o.inf; return w < o.w; }
  template <class F> static BSet zip(const BSet &a, const BSet &b, F f) {
    BSet r; size_t n = std::max(a.w.size(), b.w.size()); r.w.resize(n);
    for (size_t i = 0; i < n; i++) r.w[i] = f(a.word(i), b.word(i));
    r.inf = (f(a.inf ? ~0ULL : 0ULL, b.inf ? ~0ULL : 0ULL) & 1) != 0; r.norm(); return r;
  }
  BSet operator|(const BSet &o) const { return zip(*this, o, [](uint64_t x, uint64_t y) { return x | y; }); }
  BSet operator&(const BSet &o) const { return zip(*this, o, [](uint64_t x, uint64_t y) { return x & y; }); }
  BSet operator-(const BSet &o) const { return zip(*this, o, [](uint64_t x, uint64_t y) { return x & ~y; }); }
  bool subset_of(const BSet &o) const { return (*this - o).empty(); }
  bool intersects(const BSet &o) const { return !(*this & o).empty(); }
  long weight() const { if (inf) return -1; long n = 0; for (uint64_t x : w) n += __builtin_popcountll(x); return n; }
  long first() const { for (size_t i = 0; i < w.size(); i++) if (w[i]) return (long)(i * 64 + __builtin_ctzll(w[i])); return inf ? (long)(w.size() * 64) : -1; }
  long last() const { if (inf) return -1; for (size_t i = w.size(); i-- > 0;) if (w[i]) return (long)(i * 64 + 63 - __builtin_clzll(w[i])); return -1; }
  std::vector<unsigned> elems() const { std::vector<unsigned> v; for (size_t i = 0; i < w.size(); i++) for (int j = 0; j < 64; j++) if ((w[i] >> j) & 1) v.push_back((unsigned)(i * 64 + j)); return v; }  // finite part only
  std::string str() const {   // list format, harness-made
    std::string s; unsigned n = (unsigned)w.size() * 64; unsigned i = 0;
    while (i < n) { if (!has(i)) { i++; continue; } unsigned e = i; while (e + 1 < n && has(e + 1)) e++; if (!s.empty()) s += ","; s += std::to_string(i); if (e + 1 == n && inf) { s += "-"; return s; } if (e > i) s += "-" + std::to_string(e); i = e + 1; }
    if (inf) { if (!s.empty()) s += ","; s += std::to_string(n) + "-"; }
    return s;
  }
};

}  // namespace hwsim
