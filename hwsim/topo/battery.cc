// Read-only battery (C09): every helper against a brute-force evaluation of its documented definition, on whatever state the
// history produced. Also serves as the "every read-only public function terminates safely" battery of C06/C18.
#include "world.h"
#include <limits.h>
#include <set>

namespace hwsim {

static bool is_anc(hwloc_obj_t a, hwloc_obj_t o) { for (; o; o = o->parent) if (o == a) return true; return false; }

void battery(World &w, int ri, uint64_t sel, int nq) {
  Run &r = *w.run; Replica &R = w.r[ri]; hwloc_topology_t t = R.t; const Dump &d = R.last; const char *own = "C09";
  Rng g(sel);
  std::vector<const ObjRec *> N;   // normal objects, pre-order
  for (uint64_t gp : d.order) { const ObjRec &o = d.objs.at(gp); if (o.kind() == 0) N.push_back(&o); }
  if (N.empty()) return;
  const ObjRec *root = d.find(d.root); const BSet &rootcs = root->cs; int depthmax = d.depth;
  std::vector<const ObjRec *> numas; for (uint64_t gp : d.order) { const ObjRec &o = d.objs.at(gp); if (o.type == HWLOC_OBJ_NUMANODE) numas.push_back(&o); }
  auto level = [&](int dep) { std::vector<const ObjRec *> v; for (auto &l : d.levels) if (l.first == dep) for (uint64_t gp : l.second) { const ObjRec *o = d.find(gp); if (o) v.push_back(o); } return v; };
  for (int q = 0; q < nq; q++) {
    r.count("queries");
    // query set: union of 1-3 normal objects' cpusets, +- a PU, a foreign bit, empty
    BSet S; int k = 1 + (int)g.below(3); for (int i = 0; i < k; i++) S = S | N[g.below(N.size())]->cs;
    if (g.chance(1, 3) && !S.empty()) S.del((unsigned)S.first()); if (g.chance(1, 8)) S.add(900 + (unsigned)g.below(5)); if (g.chance(1, 10)) S = BSet();
    // a PU the topology knows about but does not contain (offline / disallowed: in the complete cpuset only)
    if (g.chance(1, 5)) { BSet off = root->ccs - rootcs; if (!off.inf && !off.empty()) { auto e = off.elems(); S.add(e[g.below(e.size())]); r.count("probe.battery_query_with_unavailable_pu"); } }
    hwloc_bitmap_t b = S.to_hwloc();
    struct Free { hwloc_bitmap_t b; ~Free() { hwloc_bitmap_free(b); } } fr{b};
    { // covering: the deepest object whose cpuset includes the set
      hwloc_obj_t got = hwloc_get_obj_covering_cpuset(t, b); const ObjRec *exp = nullptr;
      if (!S.empty()) for (auto o : N) if (S.subset_of(o->cs) && (!exp || o->depth > exp->depth)) exp = o;
      if (got != (exp ? exp->ptr : nullptr)) viol0(w, own, "helper.obj_covering_cpuset", "get_obj_covering_cpuset(%s) = %s gp=%llu, brute force: %s gp=%llu", S.str().c_str(), got ? hwloc_obj_type_string(got->type) : "NULL", got ? (unsigned long long)got->gp_index : 0ULL, exp ? hwloc_obj_type_string((hwloc_obj_type_t)exp->type) : "NULL", exp ? (unsigned long long)exp->gp : 0ULL);
    }
    { // largest objects inside
      hwloc_obj_t objs[256]; int rc = hwloc_get_largest_objs_inside_cpuset(t, b, objs, 256);
      if (!S.subset_of(rootcs)) { if (rc != -1) viol0(w, own, "helper.largest_objs", "largest_objs_inside_cpuset on a set not included in the root returned %d", rc); }
      else if (rc < 0) viol0(w, own, "helper.largest_objs", "largest_objs_inside_cpuset(%s) failed", S.str().c_str());
      else if (rc < 256) { BSet un; for (int i = 0; i < rc; i++) { BSet c = BSet::from(objs[i]->cpuset); if (!c.subset_of(S)) viol0(w, own, "helper.largest_objs", "a returned object is not inside the set"); if (c.intersects(un)) viol0(w, own, "helper.largest_objs", "returned objects overlap"); un = un | c; if (objs[i]->parent && objs[i]->parent->cpuset && BSet::from(objs[i]->parent->cpuset).subset_of(S) && !BSet::from(objs[i]->parent->cpuset).empty()) viol0(w, own, "helper.largest_objs", "a returned object is not maximal: its parent is inside the set too"); }
        if (un != S) viol0(w, own, "helper.largest_objs", "the union of the returned objects is %s, the set is %s", un.str().c_str(), S.str().c_str()); } }
    { // inside / covering iterators of a random normal level
      int dep = (int)g.below((uint64_t)depthmax); std::vector<hwloc_obj_t> ei, ec; for (auto o : level(dep)) { if (!o->cs.empty() && o->cs.subset_of(S)) ei.push_back(o->ptr); if (o->cs.intersects(S)) ec.push_back(o->ptr); }
      std::vector<hwloc_obj_t> gi, gc; hwloc_obj_t o = nullptr; while ((o = hwloc_get_next_obj_inside_cpuset_by_depth(t, b, dep, o)) && gi.size() < 100000) gi.push_back(o); o = nullptr; while ((o = hwloc_get_next_obj_covering_cpuset_by_depth(t, b, dep, o)) && gc.size() < 100000) gc.push_back(o);
      if (gi != ei) viol0(w, own, "helper.inside_iterator", "inside iterator of depth %d over %s enumerates %zu objects, %zu are included in the set", dep, S.str().c_str(), gi.size(), ei.size());
      if (gc != ec) viol0(w, own, "helper.covering_iterator", "covering iterator of depth %d over %s enumerates %zu objects, %zu intersect the set", dep, S.str().c_str(), gc.size(), ec.size());
      if (hwloc_get_nbobjs_inside_cpuset_by_depth(t, b, dep) != ei.size()) viol0(w, own, "helper.nbobjs_inside", "nbobjs_inside_cpuset_by_depth disagrees with the enumeration");
      for (unsigned i = 0; i <= ei.size(); i++) if (hwloc_get_obj_inside_cpuset_by_depth(t, b, dep, i) != (i < ei.size() ? ei[i] : nullptr)) viol0(w, own, "helper.obj_inside_index", "get_obj_inside_cpuset_by_depth index %u disagrees with the enumeration", i);
      hwloc_obj_type_t ty = hwloc_get_depth_type(t, dep); int td = hwloc_get_type_depth(t, ty);
      if (td == dep) { std::vector<hwloc_obj_t> gt; o = nullptr; while ((o = hwloc_get_next_obj_inside_cpuset_by_type(t, b, ty, o)) && gt.size() < 100000) gt.push_back(o); if (gt != ei) viol0(w, own, "helper.inside_iterator", "inside iterator by type %s disagrees with the level scan", hwloc_obj_type_string(ty)); }
      else if (td == HWLOC_TYPE_DEPTH_MULTIPLE && hwloc_get_next_obj_inside_cpuset_by_type(t, b, ty, nullptr)) viol0(w, own, "helper.inside_iterator", "by-type iterator returned an object for a type with several depths"); }
    { // cpuset <-> nodeset follow NUMA-node locality
      hwloc_bitmap_t ns = hwloc_bitmap_alloc(), cs = hwloc_bitmap_alloc(); hwloc_cpuset_to_nodeset(t, b, ns); BSet en; for (auto n : numas) if (n->cs.intersects(S)) en.add(n->os_index);
      BSet gn = BSet::from(ns); hwloc_cpuset_from_nodeset(t, cs, ns); BSet ec; for (auto n : numas) if (en.has(n->os_index)) ec = ec | n->cs; BSet gcs = BSet::from(cs); hwloc_bitmap_free(ns); hwloc_bitmap_free(cs);
      if (gn != en) viol0(w, own, "helper.cpuset_to_nodeset", "cpuset_to_nodeset(%s) = %s, NUMA nodes whose cpuset intersects it: %s", S.str().c_str(), gn.str().c_str(), en.str().c_str());
      if (gcs != ec) viol0(w, own, "helper.cpuset_from_nodeset", "cpuset_from_nodeset(%s) = %s, union of those nodes' cpusets: %s", en.str().c_str(), gcs.str().c_str(), ec.str().c_str()); }
    { // common ancestor, closest objects, ancestors
      const ObjRec *a = N[g.below(N.size())], *c = N[g.below(N.size())]; hwloc_obj_t got = hwloc_get_common_ancestor_obj(t, a->ptr, c->ptr); hwloc_obj_t exp = nullptr; for (hwloc_obj_t x = a->ptr; x; x = x->parent) if (is_anc(x, c->ptr)) { exp = x; break; }
      if (got != exp) viol0(w, own, "helper.common_ancestor", "get_common_ancestor_obj disagrees with the parent chains");
      if (!a->cs.empty()) { hwloc_obj_t cl[512]; unsigned nc = hwloc_get_closest_objs(t, a->ptr, cl, 512); int prev = -1; std::set<hwloc_obj_t> seen;
        for (unsigned i = 0; i < nc && i < 512; i++) { if (cl[i]->depth != a->depth || cl[i] == a->ptr || !seen.insert(cl[i]).second) viol0(w, own, "helper.closest_objs", "get_closest_objs returned the source, a duplicate or an object of another depth"); hwloc_obj_t ca = hwloc_get_common_ancestor_obj(t, a->ptr, cl[i]); int sz = (int)BSet::from(ca->cpuset).weight(); if (sz < prev) viol0(w, own, "helper.closest_objs", "get_closest_objs is not ordered by ancestor distance"); prev = sz; }
        unsigned expn = 0; for (auto o : level(a->depth)) if (o->ptr != a->ptr && !o->cs.subset_of(a->cs)) expn++; if (nc < 512 && nc != expn) viol0(w, own, "helper.closest_objs", "get_closest_objs returned %u objects, %u objects of that depth are not inside the source's cpuset", nc, expn); } }
    { // same locality: an object of the requested type with equal sets, or NULL (when a brute-force search finds none); sources include memory objects and CPU-less ones
      const ObjRec *a = N[g.below(N.size())]; if (!numas.empty() && g.chance(1, 4)) a = numas[g.below(numas.size())]; static const hwloc_obj_type_t TY[] = {HWLOC_OBJ_PACKAGE, HWLOC_OBJ_CORE, HWLOC_OBJ_PU, HWLOC_OBJ_NUMANODE, HWLOC_OBJ_L3CACHE, HWLOC_OBJ_GROUP, HWLOC_OBJ_DIE, HWLOC_OBJ_L2CACHE};
      hwloc_obj_type_t ty = TY[g.below(8)]; hwloc_obj_t sl = hwloc_get_obj_with_same_locality(t, a->ptr, ty, nullptr, nullptr, 0);
      if (!sl && hwloc_get_type_depth(t, ty) != HWLOC_TYPE_DEPTH_MULTIPLE) { for (uint64_t gp : d.order) /* by-type lookups answer NULL for a type that exists on several levels (documented) */ { const ObjRec &o = d.objs.at(gp); if (o.type == (int)ty && o.kind() <= 1 && o.cs == a->cs && o.ns == a->ns) viol0(w, own, "helper.same_locality", "get_obj_with_same_locality(%s gp=%llu -> %s) returned NULL, %s gp=%llu has the same cpuset and nodeset", hwloc_obj_type_string((hwloc_obj_type_t)a->type), (unsigned long long)a->gp, hwloc_obj_type_string(ty), hwloc_obj_type_string(ty), (unsigned long long)gp); } }
      if (sl) { const ObjRec *so = d.find(sl->gp_index); if (sl->type != ty || !so || so->ptr != sl || so->cs != a->cs || so->ns != a->ns) viol0(w, own, "helper.same_locality", "get_obj_with_same_locality(%s -> %s) returned an object of another type or with other sets", hwloc_obj_type_string((hwloc_obj_type_t)a->type), hwloc_obj_type_string(ty)); } }
    if (!rootcs.empty()) { // distrib over the root
      unsigned nitems = 1 + (unsigned)g.below(20); hwloc_obj_t rootp = hwloc_get_root_obj(t); std::vector<hwloc_bitmap_t> sets(nitems, (hwloc_bitmap_t) nullptr); unsigned long fl = g.chance(1, 2) ? HWLOC_DISTRIB_FLAG_REVERSE : 0; int until = g.chance(2, 3) ? INT_MAX : (int)g.below((uint64_t)depthmax);
      int rc = hwloc_distrib(t, &rootp, 1, sets.data(), nitems, until, fl); std::string bad; BSet un; bool disjoint = true;
      if (rc) bad = "failed"; else for (unsigned i = 0; i < nitems; i++) { if (!sets[i]) { bad = "a set is missing"; break; } BSet c = BSet::from(sets[i]); if (c.empty()) bad = "an empty set"; if (!c.subset_of(rootcs)) bad = "a set outside the roots"; if (c.intersects(un)) disjoint = false; un = un | c; }
      for (auto x : sets) if (x) hwloc_bitmap_free(x);
      if (bad.empty() && un != rootcs) bad = "the union does not cover the roots";
      if (bad.empty() && until == INT_MAX && (long)nitems <= rootcs.weight() && !disjoint) bad = "overlapping sets although n does not exceed the number of PUs";
      if (!bad.empty()) viol0(w, own, "helper.distrib", "hwloc_distrib(n=%u, until=%d, flags=%lu): %s", nitems, until, fl, bad.c_str()); }
    { // singlify_per_core keeps at most one PU per core (the which-th one)
      hwloc_bitmap_t c = hwloc_bitmap_dup(b); hwloc_bitmap_and(c, c, hwloc_get_root_obj(t)->cpuset); BSet before = BSet::from(c); unsigned which = (unsigned)g.below(3); hwloc_bitmap_singlify_per_core(t, c, which); BSet after = BSet::from(c); hwloc_bitmap_free(c);
      if (!after.subset_of(before)) viol0(w, own, "helper.singlify_per_core", "singlify_per_core added bits");
      int cd = hwloc_get_type_depth(t, HWLOC_OBJ_CORE);
      if (cd >= 0) for (auto core : level(cd)) { std::vector<unsigned> in; for (unsigned x : core->cs.elems()) if (before.has(x)) in.push_back(x); BSet kept = core->cs & after; if (kept.weight() > 1) viol0(w, own, "helper.singlify_per_core", "singlify_per_core kept %ld PUs of one core", kept.weight()); if (in.size() > which) { if (kept.weight() != 1 || (unsigned)kept.first() != in[which]) viol0(w, own, "helper.singlify_per_core", "singlify_per_core did not keep the PU of rank %u in a core", which); } else if (!kept.empty()) viol0(w, own, "helper.singlify_per_core", "singlify_per_core kept a PU in a core that has too few PUs in the set"); } }
  }
  // type/depth lookups are mutually inverse
  for (int dep = 0; dep < depthmax; dep++) { hwloc_obj_type_t ty = hwloc_get_depth_type(t, dep); int td = hwloc_get_type_depth(t, ty); if (td != dep && td != HWLOC_TYPE_DEPTH_MULTIPLE) viol0(w, own, "helper.type_depth", "get_type_depth(get_depth_type(%d)) = %d", dep, td); }
  r.count("probe.battery_runs");
}

}  // namespace hwsim
