// Shared-memory replicas (C19): get_length / write / adopt with argument, header, ABI and address-space faults.
#include "world.h"
#include <unistd.h>
#include <fcntl.h>
#include <sys/mman.h>
#include <sys/stat.h>
#include <algorithm>

namespace hwsim {

static std::string xml_of(hwloc_topology_t t) { char *b = nullptr; int l = 0; std::string s; if (hwloc_topology_export_xmlbuffer(t, &b, &l, 0) == 0 && b) { s.assign(b, (size_t)l); hwloc_free_xmlbuffer(t, b); } return s; }

bool ops_shm(World &w, const Op &o) {
  Run &r = *w.run; if (o.kind != "shm_adopt") return false;
  int si = w.pick(o.u("r")); if (si < 0) return true; int di = w.free_slot();
  if (di < 0) { r.ev("shm_adopt skipped: no free replica slot"); return true; }
  Replica &S = w.r[si]; const char *own = "C19";
  long ps = sysconf(_SC_PAGESIZE);
  if (S.adopted) { r.ev("shm_adopt skipped: source is itself adopted"); return true; }   // writing an adopted topology back is not part of the statement
  Dump ds; take_dump(S.t, ds, DUMP_FULL);
  size_t len = 0; int rc = hwloc_shmem_topology_get_length(S.t, &len, 0);
  if (rc || !len) viol0(w, own, "shm.get_length", "get_length returned %d length %zu", rc, len);
  static const size_t OFFP[] = {0, 1, 3, 17}; size_t off = OFFP[o.u("off") % 4] * (size_t)ps, tailpages = 2;
  std::string path = std::string(scratch_dir()) + "/shm." + std::to_string(w.next_token++) + ".bin";
  int fd = open(path.c_str(), O_RDWR | O_CREAT | O_TRUNC, 0600); if (fd < 0) { r.ev("shm_adopt: cannot create backing file"); return true; }
  { std::string pat(off + len + tailpages * (size_t)ps, (char)0xA5); if (write(fd, pat.data(), pat.size()) != (ssize_t)pat.size()) { close(fd); unlink(path.c_str()); return true; } }
  // address range chosen by the harness, PROT_NONE guard pages right behind it: an over-run faults
  size_t span = len + 2 * (size_t)ps; char *base = (char *)mmap(nullptr, span, PROT_NONE, MAP_PRIVATE | MAP_ANONYMOUS, -1, 0);
  if (base == MAP_FAILED) { close(fd); unlink(path.c_str()); return true; }
  char *addr = base;
  // [addr, addr+len) stays reserved by a PROT_NONE mapping except while hwloc maps it itself: otherwise an allocation of the harness
  // or of the sanitizer run-time could land in the hole and turn a good adoption into EBUSY
  auto release = [&]() { munmap(addr, len); };
  auto reserve = [&]() { void *p = mmap(addr, len, PROT_NONE, MAP_PRIVATE | MAP_ANONYMOUS | MAP_FIXED_NOREPLACE, -1, 0); (void)p; };
  auto cleanup = [&]() { munmap(base, span); close(fd); unlink(path.c_str()); };
  release(); errno = 0; rc = hwloc_shmem_topology_write(S.t, fd, off, addr, len, 0); { int e = errno; reserve(); errno = e; }
  r.ev("shm_adopt r%d write off=%zu pages -> %d", si, off / (size_t)ps, rc);
  if (rc) { int e = errno; cleanup(); viol0(w, own, "shm.write_failed", "write with the length from get_length failed, errno %d", e); }
  { struct stat st; fstat(fd, &st); if ((size_t)st.st_size < off + len) { cleanup(); viol0(w, own, "shm.write_short", "file shorter than offset+length after write"); }
    std::string chk(off, 0); if (off && pread(fd, &chk[0], off, 0) == (ssize_t)off) for (size_t i = 0; i < off; i++) if ((unsigned char)chk[i] != 0xA5) { cleanup(); viol0(w, own, "shm.write_before_offset", "byte %zu before the file offset was modified", i); } }
  // the source must not be changed by being written
  { Dump d2; take_dump(S.t, d2, DUMP_FULL); if (d2.text() != ds.text()) { cleanup(); viol0(w, own, "shm.write_modified_source", "shmem_topology_write changed what its source reports"); } }
  // faulty adoptions
  hwloc_topology_t a = nullptr; int fault = (int)(o.u("fault") % 9);
  auto expect = [&](int rc2, int e, int want, const char *what) { r.count(std::string("fault.shm_") + what); if (rc2 != -1 || e != want) { if (rc2 == 0 && a) hwloc_topology_destroy(a); cleanup(); viol0(w, own, std::string("shm.adopt_") + what, "adopt with %s returned %d errno %d, expected -1/%s", what, rc2, e, want == EINVAL ? "EINVAL" : "EBUSY"); } };
  auto adopt = [&](hwloc_uint64_t o2, void *a2, size_t l2, unsigned long f2, bool rel) { if (rel) release(); errno = 0; int x = hwloc_shmem_topology_adopt(&a, fd, o2, a2, l2, f2); int e = errno; if (rel && (x != 0)) reserve(); errno = e; return x; };
  if (fault == 1) { rc = adopt(off, addr + ps, len, 0, true); expect(rc, errno, EINVAL, "wrong_address"); }
  else if (fault == 2) { rc = adopt(off, addr, len + (size_t)ps, 0, true); expect(rc, errno, EINVAL, "wrong_length"); }
  else if (fault == 3 && (off || len >= 2 * (size_t)ps)) { rc = adopt(off ? off - (size_t)ps : off + (size_t)ps, addr, len, 0, true); expect(rc, errno, EINVAL, "wrong_offset"); }   // the perturbed offset stays inside the file: a header is readable
  else if (fault == 4) { rc = adopt(off, addr, len, 1, true); expect(rc, errno, EINVAL, "flags"); }
  else if (fault == 5) { release(); void *occ = mmap(addr, (size_t)ps, PROT_READ | PROT_WRITE, MAP_PRIVATE | MAP_ANONYMOUS | MAP_FIXED_NOREPLACE, -1, 0);
    if (occ != addr) reserve();
    if (occ == addr) { memset(occ, 0x77, (size_t)ps); errno = 0; rc = hwloc_shmem_topology_adopt(&a, fd, off, addr, len, 0); int e = errno; bool intact = ((unsigned char *)occ)[5] == 0x77 && ((unsigned char *)occ)[ps - 1] == 0x77; munmap(occ, (size_t)ps); reserve(); expect(rc, e, EBUSY, "occupied_range"); if (!intact) { cleanup(); viol0(w, own, "shm.adopt_occupied_range", "the mapping occupying the range was overwritten"); } } }
  else if (fault == 6 || fault == 7) {   // a stored header byte (version, header length, address, length) or ABI byte flipped on disk, restored afterwards
    size_t pos = fault == 6 ? off + (o.u("hb") % 24) : off + 24 + (o.u("hb") % 4); unsigned char orig = 0;
    if (pread(fd, &orig, 1, (off_t)pos) == 1) { unsigned char flip = orig ^ (unsigned char)(1u << (o.u("hb") / 24 % 8));
      if (pwrite(fd, &flip, 1, (off_t)pos) == 1) { rc = adopt(off, addr, len, 0, true); int e = errno; if (pwrite(fd, &orig, 1, (off_t)pos) != 1) {} expect(rc, e, EINVAL, fault == 6 ? "corrupt_header" : "incompatible_abi"); } } }
  // good adoption
  a = nullptr; rc = adopt(off, addr, len, 0, true);
  r.ev("shm_adopt adopt (after fault %d) -> %d", fault, rc);
  if (rc || !a) { int e = errno; cleanup(); viol0(w, own, "shm.adopt_failed", "adopt with the arguments of write failed, errno %d", e); }
  Replica &D = w.r[di]; D = Replica(); D.t = a; D.adopted = true; D.flags = hwloc_topology_get_flags(a); D.loaded_from = 4; D.shm_addr = addr; D.shm_len = len; D.shm_fd = fd; D.shm_file = path; D.shm_off = off;
  munmap(base + len, 2 * (size_t)ps);   // guards are only needed while writing
  Dump dd; take_dump(a, dd, DUMP_FULL); D.last = dd; D.last_text = dd.text();
  { std::string e = wf_check(a, dd); if (!e.empty()) viol(w, own, e.substr(0, e.find(": ")), "adopted topology: %s", e.c_str()); }
  // observably identical: canonical dump (support and thissystem are the adopter's own), XML export
  { Dump x = ds, y = dd; x.support = y.support = ""; x.thissystem = y.thissystem = 0; for (auto &kv : x.objs) kv.second.userdata = 0; for (auto &kv : y.objs) kv.second.userdata = 0;
    if (x.text() != y.text()) own_section_first(w, x, y, "shm");
    if (x.text() != y.text()) { std::string la, lb, ta = x.text(), tb = y.text(); size_t pa = 0, pb = 0; while (pa < ta.size() || pb < tb.size()) { size_t ea = ta.find('\n', pa), eb = tb.find('\n', pb); if (ea == std::string::npos) ea = ta.size(); if (eb == std::string::npos) eb = tb.size(); la = ta.substr(pa, ea - pa); lb = tb.substr(pb, eb - pb); if (la != lb) break; pa = ea + 1; pb = eb + 1; } viol0(w, own, "shm.dump_differs", "the adopted topology differs from the original: '%s' vs '%s'", la.substr(0, 600).c_str(), lb.substr(0, 600).c_str()); }
    std::string xa = xml_of(S.t), xb = xml_of(a); if (xa != xb) viol0(w, own, "shm.xml_differs", "XML export of the adopted topology differs from the original's (%zu vs %zu bytes)", xa.size(), xb.size()); }
  D.userdata = S.userdata;   // object userdata pointers are copied verbatim, like dup
  if (S.twin >= 0 && w.r[S.twin].twin == si) w.r[S.twin].twin = -1;
  S.twin = di; D.twin = si; S.twin_kind = D.twin_kind = 3;
  derive_models(w, si, di, false);
  { Dump d2; take_dump(S.t, d2, DUMP_FULL); S.last = d2; S.last_text = d2.text(); }
  r.count("probe.shm_adopted"); if (off) r.count("probe.shm_nonzero_offset"); if (ds.flags & HWLOC_TOPOLOGY_FLAG_INCLUDE_DISALLOWED) r.count("probe.shm_origin_include_disallowed");
  return true;
}

// called by destroy_replica for adopted replicas: the range must be reusable afterwards
void shm_after_destroy(World &w, void *addr, size_t len) {
  void *again = mmap(addr, len, PROT_READ, MAP_PRIVATE | MAP_ANONYMOUS | MAP_FIXED_NOREPLACE, -1, 0);
  if (again != addr) { if (again != MAP_FAILED) munmap(again, len); viol0(w, "C19", "shm.destroy_unmap", "the address range of a destroyed adopted topology is still mapped"); }
  munmap(again, len); w.run->count("probe.shm_destroy_released_range");
}

}  // namespace hwsim
