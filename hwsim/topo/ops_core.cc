// Modifying calls of the C02 alphabet (tree-level) and the relational restrict oracle (C08).
#include "world.h"
#include <set>

namespace hwsim {

static const char *owner_mod(const Replica &R) { return R.adopted ? "C19" : "C02"; }

// ------------------------------------------------------------------------------------------------ C08
// Relational oracle on the dumps before/after, keyed by gp_index. Clauses follow the C08 statement.
void oracle_restrict(World &w, int ri, const Dump &B, const Dump &A, const BSet &S, unsigned long fl, int rc, int err) {
  Run &r = *w.run;
  const char *own = "C08";
  bool bynode = fl & HWLOC_RESTRICT_FLAG_BYNODESET, rm_cpuless = fl & HWLOC_RESTRICT_FLAG_REMOVE_CPULESS, rm_memless = fl & HWLOC_RESTRICT_FLAG_REMOVE_MEMLESS;
  bool adapt_misc = fl & HWLOC_RESTRICT_FLAG_ADAPT_MISC, adapt_io = fl & HWLOC_RESTRICT_FLAG_ADAPT_IO;
  if (rc < 0) {
    r.count("probe.restrict_refused");
    if (err == ENOMEM) return;   // documented: topology reinitialised; not injected, never seen
    if (err != EINVAL) viol0(w, own, "restrict.errno", "restrict failed with errno %d (documented: EINVAL)", err);
    if (A.text() != B.text()) viol0(w, own, "restrict.einval_modified", "restrict returned EINVAL but the topology changed");
    // the statement names two refusals; a refusal outside them is not judged here (e.g. 'would remove everything')
    return;
  }
  // success although the statement demands EINVAL
  unsigned long known = HWLOC_RESTRICT_FLAG_REMOVE_CPULESS | HWLOC_RESTRICT_FLAG_BYNODESET | HWLOC_RESTRICT_FLAG_REMOVE_MEMLESS | HWLOC_RESTRICT_FLAG_ADAPT_MISC | HWLOC_RESTRICT_FLAG_ADAPT_IO;
  if ((fl & ~known) || (bynode && rm_cpuless) || (!bynode && rm_memless)) viol0(w, own, "restrict.inconsistent_flags_accepted", "restrict succeeded with inconsistent flags 0x%lx", fl);
  if (!bynode && !S.intersects(B.acs)) viol0(w, own, "restrict.disjoint_accepted", "restrict succeeded although the set %s does not intersect the allowed cpuset %s", S.str().c_str(), B.acs.str().c_str());
  if (bynode && !S.intersects(B.ans)) viol0(w, own, "restrict.disjoint_accepted", "restrict by nodeset succeeded although the set %s does not intersect the allowed nodeset %s", S.str().c_str(), B.ans.str().c_str());
  const ObjRec *rB = B.find(B.root);
  // dropped resources
  BSet dc, dn;
  if (!bynode) {
    dc = rB->ccs - S;
    if (rm_cpuless) for (auto &kv : B.objs) if (kv.second.type == HWLOC_OBJ_NUMANODE && kv.second.cs.subset_of(dc)) dn.add(kv.second.os_index);
  } else {
    dn = rB->cns - S;
    if (rm_memless) for (auto &kv : B.objs) if (kv.second.type == HWLOC_OBJ_PU && (kv.second.ns.subset_of(dn))) dc.add(kv.second.os_index);
  }
  if (dc.empty() && dn.empty()) r.count("probe.restrict_noop"); else r.count("probe.restrict_effective");
  // topology / complete / allowed sets
  const ObjRec *rA = A.find(A.root);
  if (!rA || rA->gp != rB->gp) viol0(w, own, "restrict.root_changed", "root object changed");
  if (A.acs != B.acs - dc) viol0(w, own, "restrict.allowed_cpuset", "allowed cpuset %s, expected %s", A.acs.str().c_str(), (B.acs - dc).str().c_str());
  if (A.ans != B.ans - dn) viol0(w, own, "restrict.allowed_nodeset", "allowed nodeset %s, expected %s", A.ans.str().c_str(), (B.ans - dn).str().c_str());
  if (A.tcs != B.tcs - dc || A.tccs != B.tccs - dc) viol0(w, own, "restrict.topology_cpuset", "topology cpuset %s / complete %s, expected %s / %s", A.tcs.str().c_str(), A.tccs.str().c_str(), (B.tcs - dc).str().c_str(), (B.tccs - dc).str().c_str());
  if (A.tns != B.tns - dn || A.tcns != B.tcns - dn) viol0(w, own, "restrict.topology_nodeset", "topology nodeset %s / complete %s, expected %s / %s", A.tns.str().c_str(), A.tcns.str().c_str(), (B.tns - dn).str().c_str(), (B.tcns - dn).str().c_str());
  // every object after existed before, same type, sets = old minus dropped
  for (auto &kv : A.objs) {
    const ObjRec &a = kv.second; const ObjRec *b = B.find(a.gp);
    if (!b) viol0(w, own, "restrict.object_appeared", "object gp=%llu (%s) did not exist before the restrict", (unsigned long long)a.gp, hwloc_obj_type_string((hwloc_obj_type_t)a.type));
    if (a.type != b->type) viol0(w, own, "restrict.type_changed", "gp=%llu changed type", (unsigned long long)a.gp);
    if (!a.hassets) continue;
    if (a.cs != b->cs - dc || a.ccs != b->ccs - dc) viol0(w, own, "restrict.object_cpuset", "%s gp=%llu: cpuset %s / %s, expected old minus dropped %s / %s", hwloc_obj_type_string((hwloc_obj_type_t)a.type), (unsigned long long)a.gp, a.cs.str().c_str(), a.ccs.str().c_str(), (b->cs - dc).str().c_str(), (b->ccs - dc).str().c_str());
    if (a.ns != b->ns - dn || a.cns != b->cns - dn) viol0(w, own, "restrict.object_nodeset", "%s gp=%llu: nodeset %s / %s, expected old minus dropped %s / %s", hwloc_obj_type_string((hwloc_obj_type_t)a.type), (unsigned long long)a.gp, a.ns.str().c_str(), a.cns.str().c_str(), (b->ns - dn).str().c_str(), (b->cns - dn).str().c_str());
  }
  // ancestors (gp, from parent up) in B
  auto ancestors = [&](const ObjRec &o) { std::vector<uint64_t> v; uint64_t p = o.parent; while (p != ~0ULL) { v.push_back(p); const ObjRec *x = B.find(p); if (!x) break; p = x->parent; } return v; };
  // which B objects still have a PU or NUMA node below them in A
  std::set<uint64_t> has_below;
  for (auto &kv : A.objs) { const ObjRec &a = kv.second; if (a.type != HWLOC_OBJ_PU && a.type != HWLOC_OBJ_NUMANODE) continue; const ObjRec *b = B.find(a.gp); if (!b) continue; for (uint64_t g : ancestors(*b)) has_below.insert(g); }
  bool merged_level = false;
  for (auto &kv : B.objs) {
    const ObjRec &b = kv.second; if (A.find(b.gp)) continue;
    if (b.type == HWLOC_OBJ_PU) { if (!dc.has(b.os_index)) viol0(w, own, "restrict.pu_lost", "PU os=%u removed although the set keeps it", b.os_index); continue; }
    if (b.type == HWLOC_OBJ_NUMANODE) { if (!dn.has(b.os_index)) viol0(w, own, "restrict.numa_lost", "NUMA node os=%u removed although %s", b.os_index, bynode ? "the set keeps it" : "it is not CPU-less with REMOVE_CPULESS"); continue; }
    if (b.kind() == 0 || b.type == HWLOC_OBJ_MEMCACHE) {
      if (!has_below.count(b.gp)) continue;   // nothing left below it: legal
      bool ks = B.filters[b.type] == HWLOC_TYPE_FILTER_KEEP_STRUCTURE || b.type == HWLOC_OBJ_DIE;
      if (!ks) viol0(w, own, "restrict.normal_lost", "%s gp=%llu removed although PUs/NUMA nodes remain below it and its type filter is not KEEP_STRUCTURE", hwloc_obj_type_string((hwloc_obj_type_t)b.type), (unsigned long long)b.gp);
      merged_level = true;
      BSet ecs = b.cs - dc, ens = b.ns - dn; bool twin = false;
      for (auto &kv2 : A.objs) if (kv2.second.hassets && kv2.second.kind() <= 1 && kv2.second.cs == ecs && kv2.second.ns == ens) { twin = true; break; }
      if (!twin) viol0(w, own, "restrict.merged_without_twin", "%s gp=%llu merged away but no surviving object has the same sets", hwloc_obj_type_string((hwloc_obj_type_t)b.type), (unsigned long long)b.gp);
      continue;
    }
    // Misc / I/O: may vanish only if some ancestor vanished, and never when the matching ADAPT flag is given
    bool anc_gone = false; for (uint64_t g : ancestors(b)) if (!A.find(g)) anc_gone = true;
    bool adapt = b.type == HWLOC_OBJ_MISC ? adapt_misc : adapt_io;
    // a Misc below an I/O object follows that I/O object
    if (b.type == HWLOC_OBJ_MISC) { for (uint64_t g : ancestors(b)) { const ObjRec *x = B.find(g); if (x && x->kind() == 2) { adapt = adapt_misc && adapt_io; break; } } }
    if (!anc_gone) viol0(w, own, "restrict.special_lost", "%s gp=%llu lost although all its ancestors survive", hwloc_obj_type_string((hwloc_obj_type_t)b.type), (unsigned long long)b.gp);
    if (adapt) viol0(w, own, "restrict.special_lost_despite_adapt", "%s gp=%llu lost despite the ADAPT flag", hwloc_obj_type_string((hwloc_obj_type_t)b.type), (unsigned long long)b.gp);
    r.count("probe.restrict_special_dropped");
  }
  if (merged_level) r.count("probe.restrict_merged_level");
  // re-attached special objects: closest surviving ancestor, or the structural twin of a merged ancestor
  for (auto &kv : A.objs) {
    const ObjRec &a = kv.second; if (a.kind() < 2) continue; const ObjRec *b = B.find(a.gp); if (!b || a.parent == b->parent) continue;
    r.count("probe.restrict_special_reattached");
    uint64_t expect = ~0ULL; std::vector<uint64_t> anc = ancestors(*b);
    for (uint64_t g : anc) if (A.find(g)) { expect = g; break; }
    if (a.parent == expect) continue;
    bool twin_ok = false; const ObjRec *np = A.find(a.parent);
    if (np && np->hassets) for (uint64_t g : anc) { if (A.find(g)) break; const ObjRec *x = B.find(g); if (x && x->hassets && x->cs - dc == np->cs && x->ns - dn == np->ns) twin_ok = true; }
    if (!twin_ok) viol0(w, own, "restrict.special_reattached_elsewhere", "%s gp=%llu re-attached below gp=%llu, closest surviving ancestor is gp=%llu", hwloc_obj_type_string((hwloc_obj_type_t)a.type), (unsigned long long)a.gp, (unsigned long long)a.parent, (unsigned long long)expect);
  }
  (void)ri;
}

// ------------------------------------------------------------------------------------------------ ops
static unsigned long restrict_flags(uint64_t f) {
  unsigned long fl = 0;
  if (f & 1) fl |= HWLOC_RESTRICT_FLAG_REMOVE_CPULESS; if (f & 2) fl |= HWLOC_RESTRICT_FLAG_ADAPT_MISC; if (f & 4) fl |= HWLOC_RESTRICT_FLAG_ADAPT_IO;
  if (f & 8) fl |= HWLOC_RESTRICT_FLAG_BYNODESET; if (f & 16) fl |= HWLOC_RESTRICT_FLAG_REMOVE_MEMLESS; if (f & 32) fl |= 1UL << 7;   // unknown bit
  return fl;
}

bool ops_core(World &w, const Op &o) {
  Run &r = *w.run; const std::string &k = o.kind;
  int ri = w.pick(o.u("r")); if (ri < 0) return true;
  Replica &R = w.r[ri]; hwloc_topology_t t = R.t;
  const char *own = owner_mod(R);
  if (k == "restrict") {
    unsigned long fl = restrict_flags(o.u("flags")); bool bynode = fl & HWLOC_RESTRICT_FLAG_BYNODESET;
    BSet S = bynode ? sel_nodeset(R, (int)o.u("mode"), o.u("bits")) : sel_cpuset(R, (int)o.u("mode"), o.u("bits"));
    hwloc_bitmap_t hs = S.to_hwloc();
    Dump B; take_dump(t, B, DUMP_TREE);
    errno = 0; int rc = hwloc_topology_restrict(t, hs, fl); int e = errno; hwloc_bitmap_free(hs);
    r.ev("restrict r%d S=%s fl=0x%lx -> %d e=%d", ri, S.str().c_str(), fl, rc, rc ? e : 0);
    if (R.adopted) { if (rc == 0) viol0(w, "C19", "shm.modify_not_refused", "restrict on an adopted topology returned %d errno %d (expected -1/EPERM)", rc, e); return true; }
    Dump A; take_dump(t, A, DUMP_TREE);
    if (!A.ok) viol(w, own, "wf.links", "after restrict: %s", A.broken.c_str());
    oracle_restrict(w, ri, B, A, S, fl, rc, e);
    if (rc == 0) models_after_restrict(w, ri, B, A);
    if (rc == 0 && A.text() != B.text()) { R.aux_stale = true; R.aux_stale_numa = false; for (auto &kv : B.objs) if (kv.second.type == HWLOC_OBJ_NUMANODE && !A.find(kv.first)) R.aux_stale_numa = true; }
    // known finding: a level merged by this restrict on a topology whose objects' complete_cpuset starts below their cpuset (offline CPUs)
    if (rc == 0 && A.depth < B.depth) for (auto &kv : B.objs) if (kv.second.hassets && !kv.second.cs.empty() && kv.second.ccs.first() < kv.second.cs.first()) { w.hint["wf.hwloc_check:hwloc__check_children_cpusets"] = "merged_level_with_offline_cpus"; break; }
    return true;
  }
  if (k == "insert_misc") {
    hwloc_obj_t parent = sel_obj(R, o.u("p")); std::string name = sel_string(o.u("n"));
    unsigned before = parent->misc_arity;
    errno = 0; hwloc_obj_t m = hwloc_topology_insert_misc_object(t, parent, name.c_str()); int e = errno;
    r.ev("insert_misc r%d parent=%llu -> %s", ri, (unsigned long long)parent->gp_index, m ? "obj" : "NULL");
    if (R.adopted) { if (m) viol0(w, "C19", "shm.modify_not_refused", "insert_misc on an adopted topology returned %p errno %d", (void *)m, e); return true; }
    if (m) {
      if (m->type != HWLOC_OBJ_MISC || m->parent != parent || parent->misc_arity != before + 1 || !m->name || name != m->name) viol0(w, own, "misc.inserted_wrong", "inserted Misc object is not the last Misc child of its parent with the given name");
      r.count("probe.misc_inserted");
    } else if (R.last.filters[HWLOC_OBJ_MISC] != HWLOC_TYPE_FILTER_KEEP_NONE) viol0(w, own, "misc.insert_failed", "insert_misc returned NULL although Misc objects are not filtered out (errno %d)", e);
    return true;
  }
  if (k == "group") {
    // alloc, fill sets from up to 3 selected objects (or explicit sets), optionally free instead of inserting
    errno = 0; hwloc_obj_t g = hwloc_topology_alloc_group_object(t); int e = errno;
    if (R.adopted) { if (g) viol0(w, "C19", "shm.modify_not_refused", "alloc_group on an adopted topology returned %p errno %d", (void *)g, e); r.ev("group r%d adopted refused", ri); return true; }
    if (!g) viol0(w, own, "group.alloc_failed", "alloc_group_object returned NULL (errno %d)", e);
    int how = (int)(o.u("how") % 6); int nsrc = 1 + (int)(o.u("n") % 3);
    BSet gc, gn; hwloc_obj_t copy_of = nullptr;
    if (how <= 2) {   // union of the sets of selected objects
      for (int i = 0; i < nsrc; i++) { hwloc_obj_t src = sel_obj(R, o.u("o") + (uint64_t)i * o.u("stride", 1), 3);
        // C02 runs: a quarter of the single-source Groups copy the sets of an existing Group (if there is one): identical Groups meet the merge rules
        // (preferably a mergeable one, whose kind the new Group then takes: the newcomer is not "more important", the existing Group must survive as it is)
        if (w.cfg.is("C02") && nsrc == 1 && (o.u("o") & 3) == 0) { std::vector<hwloc_obj_t> mg; for (uint64_t gp : R.last.order) { const ObjRec &rec = R.last.objs.at(gp); if (rec.type == HWLOC_OBJ_GROUP && rec.ptr && !rec.ptr->attr->group.dont_merge) mg.push_back(rec.ptr); }
          hwloc_obj_t gsrc = mg.empty() ? sel_type(R, o.u("o") >> 2, HWLOC_OBJ_GROUP) : mg[(o.u("o") >> 3) % mg.size()]; if (gsrc) { src = gsrc; if (!mg.empty() && ((o.u("o") >> 2) & 1)) copy_of = gsrc; } } if (how == 0) hwloc_obj_add_other_obj_sets(g, src); else if (how == 1) { if (!g->cpuset) g->cpuset = hwloc_bitmap_alloc(); hwloc_bitmap_or(g->cpuset, g->cpuset, src->cpuset); } else { if (!g->nodeset) g->nodeset = hwloc_bitmap_alloc(); hwloc_bitmap_or(g->nodeset, g->nodeset, src->nodeset); } }
    } else if (how == 3) { BSet s = sel_cpuset(R, (int)o.u("mode"), o.u("bits")); g->cpuset = s.to_hwloc(); }      // arbitrary, often conflicting
    else if (how == 4) { BSet s = sel_cpuset(R, (int)o.u("mode"), o.u("bits")); g->complete_cpuset = s.to_hwloc(); }
    else { /* no set at all */ }
    g->attr->group.dont_merge = (unsigned char)(o.u("dm") & 1);
    if (o.u("kind") & 1) g->attr->group.kind = 0xffffffffu;
    g->attr->group.subkind = (unsigned)(o.u("kind") >> 1) & 3;
    if (copy_of) { g->attr->group.kind = copy_of->attr->group.kind; g->attr->group.dont_merge = 0; }
    if (o.u("free") % 5 == 0) { int rc = hwloc_topology_free_group_object(t, g); r.ev("group r%d freed -> %d", ri, rc); if (rc) viol0(w, own, "group.free_failed", "free_group_object returned %d", rc); return true; }
    gc = BSet::from(g->cpuset) | BSet::from(g->complete_cpuset); gn = BSet::from(g->nodeset) | BSet::from(g->complete_nodeset);
    bool dm = g->attr->group.dont_merge;
    Dump B; take_dump(t, B, DUMP_FULL);
    // existing Groups before the call: when the new Group is merged into one of them and is not "more important" (same internal kind), the existing
    // object is what survives - with its gp_index, userdata, subtype, name and infos
    struct OldGroup { uint64_t gp; unsigned kind; uint64_t userdata; std::string line; }; std::map<hwloc_obj_t, OldGroup> oldgroups;
    for (auto &kv : B.objs) if (kv.second.type == HWLOC_OBJ_GROUP && kv.second.ptr) oldgroups[kv.second.ptr] = {kv.first, kv.second.ptr->attr->group.kind, kv.second.userdata, B.obj_line(kv.second, false)};
    unsigned newkind = g->attr->group.kind;
    errno = 0; hwloc_obj_t res = hwloc_topology_insert_group_object(t, g); e = errno;
    r.ev("group r%d how=%d cs=%s ns=%s dm=%d -> %s", ri, how, gc.str().c_str(), gn.str().c_str(), (int)dm, !res ? "NULL" : res == g ? "inserted" : "existing");
    if (!res) {
      r.count("probe.group_refused");
      Dump A; take_dump(t, A, DUMP_FULL);
      if (A.text() != B.text()) viol0(w, own, "group.refused_modified", "insert_group_object returned NULL but the topology changed");
    } else {
      r.count(res == g ? "probe.group_inserted" : "probe.group_merged_into_existing");
      // known finding: a Group described by a complete_cpuset that covers no object of the topology is inserted childless, without cpuset
      if (res == g && !res->first_child && !res->cpuset) w.hint["wf.set_inclusion"] = "childless_group_from_complete_cpuset";
      // the returned object is in the tree
      bool found = false; Dump A; take_dump(t, A, DUMP_TREE); for (auto &kv : A.objs) if (kv.second.ptr == res) found = true;
      if (!found) viol0(w, own, "group.result_not_in_tree", "insert_group_object returned an object that is not in the topology");
      auto og = oldgroups.find(res);
      if (res != g && og != oldgroups.end() && og->second.kind == newkind && !dm) {   // a dont_merge Group deliberately takes the place of a mergeable one
        r.count("probe.group_merged_into_same_kind_group");
        if (res->gp_index != og->second.gp || (uint64_t)(uintptr_t)res->userdata != og->second.userdata) viol0(w, own, "group.merged_existing_altered", "a Group with the sets and kind of an existing Group was merged into it, but the existing Group came back with gp_index %llu (was %llu) and userdata %llu (was %llu)", (unsigned long long)res->gp_index, (unsigned long long)og->second.gp, (unsigned long long)(uintptr_t)res->userdata, (unsigned long long)og->second.userdata);
      }
    }
    return true;
  }
  if (k == "allow") {
    int mode = (int)(o.u("mode") % 5);
    if (mode == 1 && R.last.thissystem) mode = 4;   // LOCAL_RESTRICTIONS on a this-system replica would read the cgroup files of the real root file system
    unsigned long fl = mode == 0 ? HWLOC_ALLOW_FLAG_ALL : mode == 1 ? HWLOC_ALLOW_FLAG_LOCAL_RESTRICTIONS : mode == 2 ? HWLOC_ALLOW_FLAG_CUSTOM : mode == 3 ? (HWLOC_ALLOW_FLAG_ALL | HWLOC_ALLOW_FLAG_CUSTOM) : (1UL << 5);
    BSet cs = sel_cpuset(R, (int)o.u("cm"), o.u("bits")), ns = sel_nodeset(R, (int)o.u("nm"), o.u("bits") >> 7);
    bool givec = mode == 2 ? (o.u("give") & 1) : (o.u("give") % 7 == 0), given = mode == 2 ? (o.u("give") & 2) : (o.u("give") % 11 == 0);
    hwloc_bitmap_t hc = givec ? cs.to_hwloc() : nullptr, hn = given ? ns.to_hwloc() : nullptr;
    Dump B; take_dump(t, B, DUMP_FULL);
    errno = 0; int rc = hwloc_topology_allow(t, hc, hn, fl); int e = errno;
    if (hc) hwloc_bitmap_free(hc); if (hn) hwloc_bitmap_free(hn);
    r.ev("allow r%d fl=0x%lx cs=%s ns=%s -> %d e=%d", ri, fl, givec ? cs.str().c_str() : "NULL", given ? ns.str().c_str() : "NULL", rc, rc ? e : 0);
    Dump A; take_dump(t, A, DUMP_FULL);
    const char *aown = R.adopted ? "C19" : "C02";
    if (rc < 0) {
      r.count("probe.allow_refused");
      if (A.text() != B.text()) viol0(w, aown, "allow.failed_modified", "allow failed (errno %d) but the topology changed", e);
    } else {
      r.count("probe.allow_ok");
      // only the allowed sets may change
      Dump B2 = B, A2 = A; B2.acs = A2.acs = BSet(); B2.ans = A2.ans = BSet();
      if (A2.text() != B2.text()) viol0(w, aown, "allow.modified_objects", "allow changed something else than the allowed sets");
      if (!(B.flags & HWLOC_TOPOLOGY_FLAG_INCLUDE_DISALLOWED)) viol0(w, aown, "allow.without_include_disallowed", "allow succeeded on a topology without INCLUDE_DISALLOWED");
      if (fl == HWLOC_ALLOW_FLAG_ALL && (!A.tcs.subset_of(A.acs) || !A.tns.subset_of(A.ans))) viol0(w, aown, "allow.all", "after ALLOW_FLAG_ALL some PU or NUMA node of the topology is not allowed (%s/%s vs %s/%s)", A.acs.str().c_str(), A.ans.str().c_str(), A.tcs.str().c_str(), A.tns.str().c_str());
      if (fl == HWLOC_ALLOW_FLAG_CUSTOM) { if (givec && A.acs != (cs & A.tcs)) viol0(w, aown, "allow.custom", "custom allowed cpuset is %s, expected %s", A.acs.str().c_str(), (cs & A.tcs).str().c_str()); if (given && A.ans != (ns & A.tns)) viol0(w, aown, "allow.custom", "custom allowed nodeset is %s, expected %s", A.ans.str().c_str(), (ns & A.tns).str().c_str()); }
    }
    return true;
  }
  if (k == "add_info" || k == "modify_infos" || k == "topo_info") {
    hwloc_obj_t obj = sel_obj(R, o.u("o")); bool topo = k == "topo_info";
    if (R.adopted) { r.ev("%s r%d skipped on adopted", k.c_str(), ri); return true; }   // info arrays of an adopted topology live in the read-only mapping; hwloc documents no refusal for these inline calls
    struct hwloc_infos_s *is = topo ? hwloc_topology_get_infos(t) : &obj->infos;
    // the last four are names the XML importer special-cases for 2.x documents (moved to the topology infos / "KiB" appended): none of that may happen to a 3.x document
    static const char *names[] = {"K1", "K2", "Key three", "lstopoStyle", "CoreType", "x", "Size", "Backend", "MICMemorySize", "OSName"};
    std::string name = names[o.u("name") % 10], value = sel_string(o.u("v"), 8);
    Infos before = read_infos(is);
    // the info arrays are observed through the dump (C05/C12/C16 compare them between replicas); the documented return
    // values and array contents of these calls are not part of any property statement and are not judged here
    if (k == "add_info") {
      int rc = hwloc_obj_add_info(obj, name.c_str(), value.c_str());
      r.ev("add_info r%d gp=%llu %s -> %d", ri, (unsigned long long)obj->gp_index, name.c_str(), rc);
    } else {
      int opk = (int)(o.u("op") % 5); unsigned long op = opk == 0 ? HWLOC_MODIFY_INFOS_OP_ADD : opk == 1 ? HWLOC_MODIFY_INFOS_OP_ADD_UNIQUE : opk == 2 ? HWLOC_MODIFY_INFOS_OP_REPLACE : opk == 3 ? HWLOC_MODIFY_INFOS_OP_REMOVE : 0x30;
      bool nn = opk == 3 && (o.u("nul") & 1), nv = opk == 3 && (o.u("nul") & 2);
      if (opk == 3 && !(o.u("nul") & 4) && !before.empty()) { auto &pr = before[o.u("v") % before.size()]; name = pr.first; value = pr.second; }   // aim at an existing pair
      int rc = hwloc_modify_infos(is, op, nn ? nullptr : name.c_str(), nv ? nullptr : value.c_str());
      r.ev("%s r%d op=%d -> %d", k.c_str(), ri, opk, rc);
    }
    return true;
  }
  if (k == "set_subtype") {
    hwloc_obj_t obj = sel_obj(R, o.u("o")); bool null = o.u("v") % 5 == 0; std::string v = sel_string(o.u("v"), 8);
    if (o.u("v") % 3 == 1) { v = "NVSwitch"; if (o.u("io") & 1) obj = sel_obj(R, o.u("o"), 4); }   // switch ports for the distances transforms
    else if (o.u("v") % 7 == 2) { v = "MemoryModule"; null = false; obj = sel_obj(R, o.u("o"), 8); }   // a Misc object the importer's 2.x compatibility code looks for
    errno = 0; int rc = hwloc_obj_set_subtype(t, obj, null ? nullptr : v.c_str()); int e = errno;
    r.ev("set_subtype r%d gp=%llu -> %d", ri, (unsigned long long)obj->gp_index, rc);
    if (!R.adopted && rc == 0 && v == "MemoryModule" && !null && !hwloc_obj_get_info_by_name(obj, "Size")) { hwloc_obj_add_info(obj, "Size", (o.u("v") & 8) ? "16GB" : "4194304KiB"); r.count("probe.memory_module_annotated"); }   // annotated the way an application describes a DIMM
    if (R.adopted) { if (rc == 0) viol0(w, "C19", "shm.modify_not_refused", "set_subtype on an adopted topology returned %d errno %d", rc, e); return true; }
    return true;
  }
  if (k == "refresh") {
    int rc = hwloc_topology_refresh(t); r.ev("refresh r%d -> %d", ri, rc);
    if (R.adopted) return true;
    if (rc) viol0(w, own, "refresh.failed", "hwloc_topology_refresh returned %d", rc);
    return true;
  }
  if (k == "set_userdata") {
    if (R.adopted) return true;   // objects live in a read-only mapping
    hwloc_obj_t obj = sel_obj(R, o.u("o")); uint64_t tok = 7000 + o.u("tok") % 100000;
    obj->userdata = (void *)(uintptr_t)tok; R.userdata[obj->gp_index] = tok;
    r.ev("set_userdata r%d gp=%llu", ri, (unsigned long long)obj->gp_index);
    return true;
  }
  return false;
}

}  // namespace hwsim
