// Replica derivations: dup (C12), xml_restart = persist + restart (C05), destroy order; shmem lives in ops_shm.cc.
#include "world.h"
#include <unistd.h>
#include <fcntl.h>
#include <sys/stat.h>
#include <algorithm>
#include <set>

namespace hwsim {

// ------------------------------------------------------------------------------------------------ userdata through XML
struct UdRec { uint64_t gp; std::string name; bool has_name; std::string bytes; bool operator<(const UdRec &o) const { return std::tie(gp, has_name, name, bytes) < std::tie(o.gp, o.has_name, o.name, o.bytes); } bool operator==(const UdRec &o) const { return gp == o.gp && has_name == o.has_name && name == o.name && bytes == o.bytes; } };
static std::vector<UdRec> *g_exported = nullptr, *g_imported = nullptr;
static int g_export_errors = 0;

static bool g_ud_markup = false;   // plain userdata may contain the XML markup characters < > &
static std::set<uint64_t> g_pass_seen;
static std::string ud_bytes(uint64_t token, int k, bool binary) {
  Rng g(mix2(token, (uint64_t)k)); size_t len = (size_t)g.below(g.chance(1, 6) ? 1 : 50); if (g.chance(1, 10)) len = 0;
  std::string s;
  for (size_t i = 0; i < len; i++) { char c = binary ? (char)g.below(256) : (char)(32 + g.below(95)); if (!binary && !g_ud_markup && (c == '<' || c == '>' || c == '&')) c = '_';
    // tab, line feed and carriage return are the other characters hwloc_export_obj_userdata() accepts; kept inside the text (a parser may drop blank edges)
    if (!binary && g_ud_markup && i > 0 && i + 1 < len && g.chance(1, 10)) c = "\t\n\r"[g.below(3)];
    s += c; }
  if (!binary && g_ud_markup && len >= 2) { if (s[0] == ' ') s[0] = 'x'; if (s[len - 1] == ' ') s[len - 1] = 'x'; }
  return s;
}
static void export_cb(void *reserved, hwloc_topology_t topology, hwloc_obj_t obj) {
  uint64_t token = (uint64_t)(uintptr_t)obj->userdata; if (!token) return;
  // the nolibxml back-end runs the whole export twice (once to size the buffer): a second visit of an object starts a new pass
  if (!g_pass_seen.insert(obj->gp_index).second) { g_pass_seen.clear(); g_pass_seen.insert(obj->gp_index); if (g_exported) g_exported->clear(); }
  int n = 1 + (int)(token % 3);
  for (int k = 0; k < n; k++) {
    bool b64 = ((token >> (3 + k)) & 1) != 0; bool noname = ((token >> (7 + k)) & 3) == 0;
    std::string name = "t" + std::to_string(token) + (k ? "&<" + std::to_string(k) + ">" : ""); std::string bytes = ud_bytes(token, k, b64);
    if (k > 0 && noname) name.clear();
    // exact-size heap copy without terminating NUL: the API takes (buffer, length)
    char *raw = (char *)malloc(bytes.size() ? bytes.size() : 1); memcpy(raw, bytes.data(), bytes.size());
    int rc = b64 ? hwloc_export_obj_userdata_base64(reserved, topology, obj, k > 0 && noname ? nullptr : name.c_str(), raw, bytes.size())
                 : hwloc_export_obj_userdata(reserved, topology, obj, k > 0 && noname ? nullptr : name.c_str(), raw, bytes.size());
    free(raw);
    if (rc < 0) g_export_errors++;
    else if (g_exported) g_exported->push_back({obj->gp_index, name, !(k > 0 && noname), bytes});
  }
}
static void import_cb(hwloc_topology_t, hwloc_obj_t obj, const char *name, const void *buffer, size_t length) {
  if (g_imported) g_imported->push_back({obj->gp_index, name ? name : "", name != nullptr, std::string((const char *)buffer, length)});
  // the first record of an object carries the token: restore it as the object's userdata, as an application would
  if (name && name[0] == 't' && !strchr(name, '&')) obj->userdata = (void *)(uintptr_t)strtoull(name + 1, nullptr, 10);
}

static std::string strip_support(const std::string &xml) {
  std::string out; size_t pos = 0;
  while (pos < xml.size()) { size_t e = xml.find('\n', pos); if (e == std::string::npos) e = xml.size(); std::string line = xml.substr(pos, e - pos); if (line.find("<support ") == std::string::npos) { out += line; out += '\n'; } pos = e + 1; }
  return out;
}

// keepcb: the export callback is whatever the topology holds (dup must have copied it from its source) and is left in place
static bool export_xml(World &w, Replica &R, bool tofile, bool v2, std::string &out, std::string &path, int *rcp, bool keepcb = false) {
  unsigned long fl = v2 ? HWLOC_TOPOLOGY_EXPORT_XML_FLAG_V2 : 0;
  if (!keepcb) hwloc_topology_set_userdata_export_callback(R.t, export_cb);
  g_pass_seen.clear(); g_ud_markup = w.cfg.ud_markup;
  int rc;
  if (tofile) {
    path = std::string(scratch_dir()) + "/export." + std::to_string(w.next_token++) + ".xml";
    rc = hwloc_topology_export_xml(R.t, path.c_str(), fl);
    if (rc == 0) { FILE *f = fopen(path.c_str(), "rb"); if (f) { char tmp[65536]; size_t n; while ((n = fread(tmp, 1, sizeof tmp, f)) > 0) out.append(tmp, n); fclose(f); } }
  } else {
    char *buf = nullptr; int len = 0; rc = hwloc_topology_export_xmlbuffer(R.t, &buf, &len, fl);
    if (rc == 0 && buf) { out.assign(buf, len > 0 ? (size_t)len - 1 : 0); if (len <= 0 || buf[len - 1] != '\0') out.assign(buf, (size_t)std::max(len, 0)); hwloc_free_xmlbuffer(R.t, buf); }
  }
  if (!keepcb) hwloc_topology_set_userdata_export_callback(R.t, nullptr);
  *rcp = rc; return rc == 0;
}

// dump projection for a v2-format round trip: tree and sets only (C05: "a v2-format export reloads to a topology with the same tree and sets")
static std::string tree_sets_text(const Dump &d) {
  std::string s;
  for (uint64_t gp : d.order) { const ObjRec &o = d.objs.at(gp); int ind = 0; for (uint64_t p = o.parent; p != ~0ULL && ind < 64; ind++) p = d.objs.at(p).parent;
    s += std::string(ind, ' ') + hwloc_obj_type_string((hwloc_obj_type_t)o.type) + " os=" + std::to_string(o.os_index); if (o.hassets) s += " cs=" + o.cs.str() + " ccs=" + o.ccs.str() + " ns=" + o.ns.str() + " cns=" + o.cns.str(); s += "\n"; }
  s += "allowed " + d.acs.str() + " / " + d.ans.str() + "\n";
  return s;
}

static void first_diff(const std::string &a, const std::string &b, std::string &la, std::string &lb) {
  size_t pa = 0, pb = 0;
  while (pa < a.size() || pb < b.size()) { size_t ea = a.find('\n', pa), eb = b.find('\n', pb); if (ea == std::string::npos) ea = a.size(); if (eb == std::string::npos) eb = b.size(); la = a.substr(pa, ea - pa); lb = b.substr(pb, eb - pb); if (la != lb) return; pa = ea + 1; pb = eb + 1; }
  la = lb = "";
}

// plain userdata holding < or & exported by the nolibxml back-end (which does not escape element content): known finding
static bool markup_exported(const World &w, const std::vector<UdRec> &ex) {
  if (w.cfg.libxml_export && w.cfg.libxml_import) return false;   // libxml escapes and unescapes element content on both sides
  for (auto &u : ex) { bool plain = true; for (unsigned char c : u.bytes) if (c < 32 || c > 126) plain = false; if (plain && u.bytes.find_first_of("<>&") != std::string::npos) return true; }
  return false;
}
// cpuset initiators of one memattr target that are not pairwise disjoint (equal or overlapping, e.g. narrowed by a restrict)
static bool has_overlapping_initiators(const Dump &d) {
  for (auto &m : d.memattrs) for (auto &t : m.targets) for (size_t i = 0; i < t.inits.size(); i++) for (size_t j = i + 1; j < t.inits.size(); j++)
    if (t.inits[i].is_cs && t.inits[j].is_cs && (t.inits[i].cs.intersects(t.inits[j].cs) || (t.inits[i].cs.empty() && t.inits[j].cs.empty()))) return true;
  return false;
}
// the complete_cpuset of a memory object is not always its parent's after a native/filtered load, but always is after an XML import
static Dump memccs_normalised(const Dump &d) {
  Dump n = d;
  for (uint64_t gp : n.order) { ObjRec &o = n.objs.at(gp); if (o.kind() == 1 && o.parent != ~0ULL) { const ObjRec *p = n.find(o.parent); if (p) o.ccs = p->ccs; } }   // pre-order: parents first
  return n;
}
// a Group that is not dont_merge and has the same cpuset as its parent or as its only normal child: load-time rules would have merged it
// known finding: a normal object left without anything below it (no PU, no memory, no I/O, no Misc) by an insertion that moved its memory
// children up to a new Group with identical sets; the loader's remove_empty pass drops such objects, so they are missing after a reload
static bool empty_object_dropped(const Dump &ds, const Dump &dd) {
  for (auto &kv : ds.objs) { const ObjRec &o = kv.second; if (o.kind() != 0 || o.type == HWLOC_OBJ_PU || o.type == HWLOC_OBJ_MACHINE) continue;
    if (o.kids[0].empty() && o.kids[1].empty() && o.kids[2].empty() && o.kids[3].empty() && o.cs.empty() && !dd.objs.count(kv.first)) return true; }
  return false;
}
static bool has_redundant_group(const Dump &d) {
  for (auto &kv : d.objs) { const ObjRec &o = kv.second; if (o.type != HWLOC_OBJ_GROUP || o.attr.find("dont_merge=1") != std::string::npos) continue;
    const ObjRec *p = d.find(o.parent); if (p && p->hassets && p->cs == o.cs) return true;
    if (o.kids[0].size() == 1) { const ObjRec *c = d.find(o.kids[0][0]); if (c && c->cs == o.cs) return true; } }
  return false;
}

// reference models of a derived replica: the distances list restarts from what the new replica reports (XML export lists homogeneous
// matrices first, and equality with the source was just judged on the dumps); memattr and cpukind models carry information a dump
// cannot show (forced efficiencies, which initiators are disjoint by construction), so they are inherited unless `fresh`
// Documents for the fault machine (C06): the replica's export with <userdata> elements in it. A seeded handful of objects without application userdata
// get a token for the duration of the export only (plain and base64 records of 0-50 bytes, named and anonymous), so that damaged documents also
// exercise the importer's userdata path; the replica is left as it was.
std::string export_with_userdata(World &w, Replica &R, bool v2, uint64_t sel) {
  std::vector<hwloc_obj_t> lent; Rng g(sel);
  if (R.adopted) return std::string();   // the objects of an adopted replica live in a read-only mapping
  for (uint64_t gp : R.last.order) { hwloc_obj_t o = R.last.objs.at(gp).ptr; if (!o->userdata && g.chance(1, 4) && lent.size() < 12) { o->userdata = (void *)(uintptr_t)(50000 + g.below(40000)); lent.push_back(o); } }
  std::string xml, path; int rc = 0; bool ok = export_xml(w, R, false, v2, xml, path, &rc);
  for (hwloc_obj_t o : lent) o->userdata = nullptr;
  return ok ? xml : std::string();
}
static volatile size_t g_sink;
static void reading_import_cb(hwloc_topology_t, hwloc_obj_t obj, const char *name, const void *buffer, size_t length) {
  size_t h = obj ? obj->gp_index : 0; if (name) h += strlen(name); const unsigned char *b = (const unsigned char *)buffer; for (size_t i = 0; i < length; i++) h = h * 31 + b[i]; g_sink = h;   // every delivered byte is read (ASan judges the bounds)
}
void install_reading_import_cb(hwloc_topology_t t) { hwloc_topology_set_userdata_import_callback(t, reading_import_cb); }

void derive_models(World &w, int si, int di, bool fresh) {
  Replica &S = w.r[si], &D = w.r[di];
  models_init(w, di);
  if (!fresh) { if (S.mem_tracked && D.mem_tracked) D.memattrs = S.memattrs; if (S.kinds_tracked && D.kinds_tracked) D.kind_regs = S.kind_regs; }
}

// A replica-derivation oracle (dup: C12, XML restart: C05, shared memory: C19) is about to end a C13 / C14 / C15 run. "What was added survives dup, XML
// round trip and adoption" is a clause of those properties themselves: if the section of the dump the run's own property speaks of (distances /
// memory attributes / CPU kinds) is what differs between the source and the derived replica, the violation is the run's own.
void own_section_first(World &w, const Dump &ds, const Dump &dd, const char *how) {
  bool c13 = w.cfg.is("C13"), c14 = w.cfg.is("C14"), c15 = w.cfg.is("C15"); if (!c13 && !c14 && !c15) return;
  auto sect = [&](const Dump &d) { std::vector<std::string> v; if (c13) for (auto &x : d.dists) v.push_back(x.text()); if (c14) for (auto &x : d.memattrs) v.push_back(x.text()); if (c15) for (auto &x : d.kinds) v.push_back(x.text()); std::sort(v.begin(), v.end()); std::string s; for (auto &x : v) s += x + "\n"; return s; };
  std::string a = sect(ds), b = sect(dd); if (a == b) return;
  std::string la, lb; first_diff(a, b, la, lb);
  viol0(w, w.cfg.prop.c_str(), std::string(c13 ? "dist" : c14 ? "memattr" : "kinds") + ".not_preserved_by_" + how, "the %s reported by the %s replica differ from the source's: '%s' vs '%s'", c13 ? "distances" : c14 ? "memory attributes" : "CPU kinds", how, la.substr(0, 500).c_str(), lb.substr(0, 500).c_str());
}

bool ops_repl(World &w, const Op &o) {
  Run &r = *w.run; const std::string &k = o.kind;
  if (k == "dup") {
    int si = w.pick(o.u("r")); if (si < 0) return true; int di = w.free_slot();
    if (di < 0) { r.ev("dup skipped: no free replica slot"); return true; }
    Replica &S = w.r[si];
    Dump ds; take_dump(S.t, ds, DUMP_FULL);
    // the userdata callbacks are part of what the application configured: registered on the source only, the duplicate must export the same document
    hwloc_topology_set_userdata_export_callback(S.t, export_cb);
    hwloc_topology_t nt = nullptr; errno = 0; int rc = hwloc_topology_dup(&nt, S.t);
    r.ev("dup r%d -> r%d rc=%d", si, di, rc);
    if (rc < 0 || !nt) viol0(w, "C12", "dup.failed", "hwloc_topology_dup failed (errno %d)", errno);
    Replica &D = w.r[di]; D = Replica(); D.t = nt; D.flags = hwloc_topology_get_flags(nt); D.loaded_from = 3;
    D.userdata = S.userdata;
    if (S.twin >= 0 && w.r[S.twin].twin == si) w.r[S.twin].twin = -1;
    S.twin = di; D.twin = si; S.twin_kind = D.twin_kind = 1;
    Dump dd; take_dump(nt, dd, DUMP_FULL);
    std::string a = ds.text(), b = dd.text();
    if (a != b) own_section_first(w, ds, dd, "dup");
    if (a != b) { std::string la, lb; first_diff(a, b, la, lb); viol0(w, "C12", "dup.dump_differs", "dup differs from its source: '%s' vs '%s'", la.c_str(), lb.c_str()); }
    // identical XML export
    std::string xa, xb, pa, pb; int r1, r2; std::vector<UdRec> ea, eb; g_exported = &ea; bool oka = export_xml(w, S, false, false, xa, pa, &r1, true); g_exported = &eb; bool okb = export_xml(w, D, false, false, xb, pb, &r2, true); g_exported = nullptr;
    hwloc_topology_set_userdata_export_callback(S.t, nullptr); if (nt) hwloc_topology_set_userdata_export_callback(nt, nullptr);
    if (oka != okb || xa != xb) viol0(w, "C12", "dup.xml_differs", "XML export of the dup differs from the XML export of its source (%zu vs %zu bytes)", xa.size(), xb.size());
    // the source must not have been touched by dup itself
    Dump ds2; take_dump(S.t, ds2, DUMP_FULL); if (ds2.text() != a) viol0(w, "C12", "dup.modified_source", "hwloc_topology_dup changed what its source reports");
    S.last = ds2; S.last_text = a; D.last = dd; D.last_text = b;
    derive_models(w, si, di, false);
    std::string e = wf_check(nt, dd); if (!e.empty()) viol(w, "C12", e.substr(0, e.find(": ")), "dup: %s", e.c_str());
    r.count("probe.dup"); if (S.adopted) r.count("probe.dup_of_adopted"); if (S.loaded_from == 2) r.count("probe.dup_of_xml_restart"); if (S.loaded_from == 3) r.count("probe.dup_of_dup");
    return true;
  }
  if (k == "destroy") {
    if (w.nlive() <= 1) { r.ev("destroy skipped: last replica"); return true; }
    int ri = w.pick(o.u("r")); r.ev("destroy r%d", ri); r.count("probe.destroy_mid_history");
    destroy_replica(w, ri);
    return true;
  }
  if (k == "xml_load_cfg") {
    // C01 over history-built XML sources: the replica's own export (Misc objects, Groups, distances, memattrs, kinds, restricted sets ...) is the
    // source of a fresh configure -> load history with a seeded filter assignment and flag word; no relation to the exporter is claimed (the
    // filters differ), only: load returns 0 or -1, and on 0 the topology is well formed
    int si = w.pick(o.u("r")); if (si < 0) return true; Replica &S = w.r[si];
    bool tofile = o.u("via") & 1, v2 = (o.u("v2") % 4) == 0; std::string xml, path; int rc;
    if (!export_xml(w, S, tofile, v2, xml, path, &rc)) { r.ev("xml_load_cfg: export failed rc=%d", rc); if (tofile && !path.empty()) unlink(path.c_str()); return true; }
    hwloc_topology_t nt = nullptr; hwloc_topology_init(&nt);
    std::string f = o.s("filt", ""); if (!f.empty() && f[0] == 'f') f.erase(0, 1);
    for (size_t ty = 0; ty < f.size() && ty < HWLOC_OBJ_TYPE_MAX; ty++) if (f[ty] >= '0' && f[ty] <= '3') hwloc_topology_set_type_filter(nt, (hwloc_obj_type_t)ty, (enum hwloc_type_filter_e)(f[ty] - '0'));
    unsigned long fl = (unsigned long)o.u("flags") & (HWLOC_TOPOLOGY_FLAG_INCLUDE_DISALLOWED | HWLOC_TOPOLOGY_FLAG_IMPORT_SUPPORT | HWLOC_TOPOLOGY_FLAG_NO_DISTANCES | HWLOC_TOPOLOGY_FLAG_NO_MEMATTRS | HWLOC_TOPOLOGY_FLAG_NO_CPUKINDS | HWLOC_TOPOLOGY_FLAG_DONT_CHANGE_BINDING);
    hwloc_topology_set_flags(nt, fl);
    int rc1 = tofile ? hwloc_topology_set_xml(nt, path.c_str()) : hwloc_topology_set_xmlbuffer(nt, xml.c_str(), (int)xml.size() + 1);
    int rc2 = rc1 == 0 ? hwloc_topology_load(nt) : -1;
    if (tofile && !path.empty()) unlink(path.c_str());
    r.ev("xml_load_cfg r%d v2=%d via=%s filt=%s flags=0x%lx -> set %d load %d", si, (int)v2, tofile ? "file" : "buffer", f.c_str(), fl, rc1, rc2);
    if ((rc1 != 0 && rc1 != -1) || (rc2 != 0 && rc2 != -1)) { hwloc_topology_destroy(nt); viol0(w, "C01", "cfg.return_value", "set_xml returned %d, load returned %d", rc1, rc2); }
    if (rc2 == 0) {
      r.count("probe.xml_load_cfg_loaded"); Dump dd; take_dump(nt, dd, DUMP_FULL);
      r.distinct("state", mix2(hash_str(dd.text()), hash_str("xml_load_cfg")));
      std::string e = wf_check(nt, dd);
      // known finding (same defect as C02 ...merged_level_with_offline_cpus@restrict): a KEEP_STRUCTURE level merged at load time on a
      // topology whose complete_cpusets start below the cpusets
      if (!e.empty() && e.rfind("wf.hwloc_check:hwloc__check_children_cpusets", 0) == 0) { Dump ds; take_dump(S.t, ds, DUMP_TREE); bool off = false; for (auto &kv : ds.objs) if (kv.second.hassets && !kv.second.cs.empty() && kv.second.ccs.first() < kv.second.cs.first()) off = true;
        if (off && dd.depth < ds.depth) { hwloc_topology_destroy(nt); viol(w, "C01", e.substr(0, e.find(": ")) + ".merged_level_with_offline_cpus", "topology loaded from a history-built XML export, a level was merged at load: %s", e.c_str()); } }
      if (!e.empty()) { hwloc_topology_destroy(nt); viol(w, "C01", e.substr(0, e.find(": ")), "topology loaded from a history-built %s XML export with filters %s flags 0x%lx: %s", v2 ? "v2" : "v3", f.c_str(), fl, e.c_str()); }
    } else r.count("probe.xml_load_cfg_refused");
    hwloc_topology_destroy(nt);
    return true;
  }
  if (k == "xml_restart") {
    int si = w.pick(o.u("r")); if (si < 0) return true; int di = w.free_slot();
    if (di < 0) { r.ev("xml_restart skipped: no free replica slot"); return true; }
    Replica &S = w.r[si]; bool tofile = o.u("via") & 1, v2 = (o.u("v2") % 4) == 0;
    // the statement is about the topology as the application sees it: make lazy caches current first in a third of the runs only
    if (o.u("pre") % 3 == 0) hwloc_topology_refresh(S.t);
    std::string xml, path; int rc; std::vector<UdRec> exported, imported; g_exported = &exported; g_export_errors = 0;
    bool ok = export_xml(w, S, tofile, v2, xml, path, &rc); g_exported = nullptr;
    r.ev("xml_restart r%d export via=%s v2=%d rc=%d len=%zu", si, tofile ? "file" : "buffer", (int)v2, rc, xml.size());
    if (!ok) viol0(w, "C05", "xml.export_failed", "XML export failed (rc %d, errno %d)", rc, errno);
    if (g_export_errors) viol0(w, "C05", "xml.userdata_export_refused", "hwloc_export_obj_userdata refused printable data");
    Dump ds; take_dump(S.t, ds, DUMP_FULL);
    hwloc_topology_t nt = nullptr; hwloc_topology_init(&nt);
    hwloc_topology_set_all_types_filter(nt, HWLOC_TYPE_FILTER_KEEP_ALL);
    // "the same topology flags": IS_THISSYSTEM included (on an XML source it only selects the native binding hooks and their support bits; nothing is bound here)
    unsigned long fl = S.flags & ~(unsigned long)(HWLOC_TOPOLOGY_FLAG_THISSYSTEM_ALLOWED_RESOURCES | HWLOC_TOPOLOGY_FLAG_RESTRICT_TO_CPUBINDING | HWLOC_TOPOLOGY_FLAG_RESTRICT_TO_MEMBINDING);
    hwloc_topology_set_flags(nt, fl);
    hwloc_topology_set_userdata_import_callback(nt, import_cb);
    g_imported = &imported;
    int rc1 = tofile ? hwloc_topology_set_xml(nt, path.c_str()) : hwloc_topology_set_xmlbuffer(nt, xml.c_str(), (int)xml.size() + 1);
    int rc2 = rc1 == 0 ? hwloc_topology_load(nt) : -1;
    g_imported = nullptr;
    if (tofile && !path.empty()) unlink(path.c_str());
    r.ev("xml_restart reload set=%d load=%d", rc1, rc2);
    if ((rc1 < 0 || rc2 < 0) && markup_exported(w, exported)) { hwloc_topology_destroy(nt); viol0(w, "C05", "xml.reload_failed.nolibxml_plain_userdata_markup", "plain userdata containing '<', '>' or '&' crosses the nolibxml back-end, which neither escapes nor unescapes element content: the document does not load back (set %d, load %d)", rc1, rc2); }
    if (rc1 < 0 || rc2 < 0) { hwloc_topology_destroy(nt); viol0(w, "C05", "xml.reload_failed", "the topology's own %s XML export does not load back (set %d, load %d)", v2 ? "v2" : "v3", rc1, rc2); }
    Replica &D = w.r[di]; D = Replica(); D.t = nt; D.flags = hwloc_topology_get_flags(nt); D.loaded_from = 2;
    Dump dd; take_dump(nt, dd, DUMP_FULL); D.last = dd; D.last_text = dd.text();
    { std::string e = wf_check(nt, dd); if (!e.empty()) viol(w, "C05", e.substr(0, e.find(": ")), "reloaded topology: %s", e.c_str()); }
    r.count(v2 ? "probe.xml_restart_v2" : "probe.xml_restart_v3"); r.count(tofile ? "probe.xml_via_file" : "probe.xml_via_buffer");
    if (v2) {
      std::string a = tree_sets_text(ds), b = tree_sets_text(dd);
      if (a != b && tree_sets_text(memccs_normalised(ds)) == tree_sets_text(memccs_normalised(dd))) viol0(w, "C05", "xml.v2_tree_differs.memory_child_complete_cpuset", "only the complete_cpuset of memory objects differs: the exported topology has a NUMA node/MemCache whose complete_cpuset is not its parent's, XML import always copies the parent's");
      if (a != b && empty_object_dropped(ds, dd)) viol0(w, "C05", "xml.v2_tree_differs.empty_object_dropped", "the exported topology holds a CPU-less normal object with nothing below it; the loader drops empty objects");
      if (a != b) { std::string la, lb; first_diff(a, b, la, lb); viol0(w, "C05", "xml.v2_tree_differs", "v2 export reloads to a different tree/sets: '%s' vs '%s'", la.c_str(), lb.c_str()); }
      for (auto &kv : dd.objs) if (kv.second.userdata) D.userdata[kv.first] = kv.second.userdata;   // tokens restored by the import callback
      derive_models(w, si, di, true);   // v2 format promises tree and sets only: the models restart from what the reload reports
      S.last = ds; S.last_text = ds.text();
      return true;
    }
    bool import_support = fl & HWLOC_TOPOLOGY_FLAG_IMPORT_SUPPORT;
    // NO_DISTANCES / NO_MEMATTRS / NO_CPUKINDS make the loader ignore what the XML provides: with the same flags the reload cannot hold
    // the distances / memattrs / kinds the application had added, by documented design; those sections are outside the relation then
    bool dropped = false;
    if (fl & HWLOC_TOPOLOGY_FLAG_NO_DISTANCES) { if (!ds.dists.empty()) dropped = true; ds.dists.clear(); dd.dists.clear(); }
    if (fl & HWLOC_TOPOLOGY_FLAG_NO_MEMATTRS) { if (!ds.memattrs.empty()) dropped = true; ds.memattrs.clear(); dd.memattrs.clear(); }
    if (fl & HWLOC_TOPOLOGY_FLAG_NO_CPUKINDS) { if (!ds.kinds.empty()) dropped = true; ds.kinds.clear(); dd.kinds.clear(); }
    if (dropped) r.count("probe.xml_sections_ignored_by_flags");
    std::string a = ds.text(true), b = dd.text(true);
    if (a != b && memccs_normalised(ds).text(true) == memccs_normalised(dd).text(true)) viol0(w, "C05", "xml.dump_differs.memory_child_complete_cpuset", "only the complete_cpuset of memory objects differs: the exported topology has a NUMA node/MemCache whose complete_cpuset is not its parent's, XML import always copies the parent's");
    if (a != b && empty_object_dropped(ds, dd)) viol0(w, "C05", "xml.dump_differs.empty_object_dropped", "the exported topology holds a CPU-less normal object with nothing below it (its memory children were moved up to an inserted Group with identical sets); the loader drops empty objects");
    if (a != b && has_redundant_group(ds) && dd.depth < ds.depth) viol0(w, "C05", "xml.dump_differs.redundant_group_level", "the exported topology holds a mergeable Group with the cpuset of its parent/only child (inserted by insert_group_object); the reload merges that level (depth %d -> %d)", ds.depth, dd.depth);
    if (a != b && getenv("HWSIM_DIFFDIR")) { std::string d = getenv("HWSIM_DIFFDIR"); FILE *f = fopen((d + "/a.txt").c_str(), "w"); fputs(a.c_str(), f); fclose(f); f = fopen((d + "/b.txt").c_str(), "w"); fputs(b.c_str(), f); fclose(f); f = fopen((d + "/x.xml").c_str(), "w"); fputs(xml.c_str(), f); fclose(f); }
    if (a != b && has_overlapping_initiators(ds) && ds.aux_text(true) != dd.aux_text(true)) { Dump x = ds, y = dd; x.memattrs.clear(); y.memattrs.clear(); if (x.text(true) == y.text(true)) viol0(w, "C05", "xml.dump_differs.overlapping_memattr_initiators", "a memattr target holds cpuset initiators that are equal or overlap (narrowed by restrict); XML import re-adds them with set_value, which matches an existing initiator by inclusion and overwrites it"); }
    if (a != b) own_section_first(w, ds, dd, "xml");
    if (a != b) { std::string la, lb; first_diff(a, b, la, lb); viol0(w, "C05", "xml.dump_differs", "reloaded topology differs from the exported one: '%s' vs '%s'", la.substr(0, 900).c_str(), lb.substr(0, 900).c_str()); }
    if (import_support && ds.support != dd.support) {
      // imported support = what was exported, plus the misc.imported_support marker
      std::string x = ds.support, y = dd.support; if (!x.empty()) x.back() = '1';
      if (x != y) viol0(w, "C05", "xml.support_differs", "support bits imported with IMPORT_SUPPORT differ: %s vs %s", ds.support.c_str(), dd.support.c_str());
    }
    // userdata delivered exactly as exported
    std::sort(exported.begin(), exported.end()); std::sort(imported.begin(), imported.end());
    if (markup_exported(w, exported)) r.count("probe.xml_plain_userdata_with_markup_through_nolibxml");
    if (!(exported == imported)) {
      std::string d1 = "exported " + std::to_string(exported.size()) + " records, imported " + std::to_string(imported.size());
      for (size_t i = 0; i < std::min(exported.size(), imported.size()); i++) if (!(exported[i] == imported[i])) { d1 += "; first difference: gp " + std::to_string(exported[i].gp) + " name '" + exported[i].name + "' len " + std::to_string(exported[i].bytes.size()) + " -> gp " + std::to_string(imported[i].gp) + " name '" + imported[i].name + "' len " + std::to_string(imported[i].bytes.size()); break; }
      if (markup_exported(w, exported)) viol0(w, "C05", "xml.userdata_differs.nolibxml_plain_userdata_markup", "plain userdata containing '<', '>' or '&' crosses the nolibxml back-end, which neither escapes nor unescapes element content: %s", d1.c_str());
      viol0(w, "C05", "xml.userdata_differs", "object userdata is not delivered to the import callback as it was exported: %s", d1.c_str());
    }
    if (!exported.empty()) r.count("probe.xml_userdata_records", exported.size());
    // re-export of the reloaded topology is byte-identical
    std::string xml2, p2; int rc3; std::vector<UdRec> e2; g_exported = &e2; bool ok2 = export_xml(w, D, false, false, xml2, p2, &rc3); g_exported = nullptr;
    std::string xa = xml, xb = xml2;
    if (!import_support) { xa = strip_support(xa); xb = strip_support(xb); }   // by design the reloaded topology then advertises the XML loader's own support bits
    if (!dropped && (!ok2 || xa != xb)) { std::string la, lb; first_diff(xa, xb, la, lb); viol0(w, "C05", "xml.reexport_differs", "re-export of the reloaded topology is not byte-identical: '%s' vs '%s'", la.substr(0, 600).c_str(), lb.substr(0, 600).c_str()); }
    // twins from now on
    // only what the reloaded topology holds: its gp_index counter restarts above the largest exported value, so the index of an object that
    // was removed from the source earlier can be given to a new object here
    D.userdata.clear(); for (auto &kv : S.userdata) if (dd.objs.count(kv.first)) D.userdata[kv.first] = kv.second;
    if (S.twin >= 0 && w.r[S.twin].twin == si) w.r[S.twin].twin = -1;
    bool same_filters = true; for (int i = 0; i < HWLOC_OBJ_TYPE_MAX; i++) if (ds.filters[i] != dd.filters[i]) same_filters = false;
    if (same_filters && !dropped) { S.twin = di; D.twin = si; S.twin_kind = D.twin_kind = 2; r.count("probe.xml_twin_lockstep_possible"); }
    Dump ds2; take_dump(S.t, ds2, DUMP_FULL); S.last = ds2; S.last_text = ds2.text();
    take_dump(nt, D.last, DUMP_FULL); D.last_text = D.last.text();
    derive_models(w, si, di, false);
    return true;
  }
  return false;
}

}  // namespace hwsim
