#!/usr/bin/env python3
"""Determinism experiment (DESIGN.md section 9.8): run the first N run indexes of a check twice - once with W1 worker threads,
once with W2 (other processes, other worker ids, other scratch directories, other interleaving of the runs inside each process) -
and compare the event-log hashes seed by seed.
usage: determinism.py <Cxx> [N=2000] [W1=16] [W2=5]      exit 0 iff no hash differs"""
import os, sys, threading, tempfile, shutil, subprocess
sys.path.insert(0, os.path.dirname(os.path.abspath(__file__)))
import runner, checks, build as hwbuild  # noqa: E402


def batch(check, binp, n, workers, tag):
    workdir = tempfile.mkdtemp(prefix="hwsim-det.", dir="/dev/shm")
    ncls = int(subprocess.run([binp, "nclasses", check.prop], stdout=subprocess.PIPE, text=True, env=runner.scrub_env()).stdout.strip() or "1")
    res, lock = {}, threading.Lock()

    def work(w):
        procs = {}
        for i in range(w, n, workers):
            seed = runner.run_seed(check.base_seed, check.machine_id, i)
            pc = seed % ncls
            wk = procs.get(pc)
            if wk is None:
                wk = procs[pc] = runner.Worker(binp, pc, tag * 1000 + w * 8 + pc, workdir, check.env_extra)
            r = wk.run_one(seed, check.prop, check.tier, timeout=check.run_timeout)
            with lock:
                res[seed] = (r.hash, r.viol, r.cut)
        for wk in procs.values():
            wk.stop()
    ts = [threading.Thread(target=work, args=(w,)) for w in range(workers)]
    [t.start() for t in ts]
    [t.join() for t in ts]
    shutil.rmtree(workdir, ignore_errors=True)
    shutil.rmtree("/dev/shm/hwsim.%d.snapmaster" % os.getpid(), ignore_errors=True)
    return res


def main():
    a = sys.argv[1:]
    prop = a[0]
    n = int(a[1]) if len(a) > 1 else 2000
    w1 = int(a[2]) if len(a) > 2 else 16
    w2 = int(a[3]) if len(a) > 3 else 5
    c = checks.CHECKS[prop]("quick")
    binp = hwbuild.build(c.machine)
    r1 = batch(c, binp, n, w1, 1)
    r2 = batch(c, binp, n, w2, 2)
    bad = [s for s in r1 if r1[s] != r2.get(s)]
    print("%s: %d seeds, workers %d vs %d: %d differing results%s" % (prop, len(r1), w1, w2, len(bad), (" e.g. seed %d: %r vs %r" % (bad[0], r1[bad[0]], r2.get(bad[0]))) if bad else ""))
    return 1 if bad else 0


if __name__ == "__main__":
    sys.exit(main())
