#!/usr/bin/env python3
"""Regenerates the two generated tables of DESIGN.md section 9 (fix commits from known-findings.txt, seeded changes from seeded/*/meta.json)."""
import re, json, glob, subprocess
D = "/verif/DESIGN.md"
d = open(D).read()

rows = []
for l in open("/verif/known-findings.txt"):
    m = re.match(r"fixed: property=(C\d\d) (\w+) (.*)", l.strip())
    if not m:
        continue
    prop, h, what = m.groups()
    subj = subprocess.run(["git", "-C", "/repo", "log", "--format=%s", "-1", h], capture_output=True, text=True).stdout.strip()
    rows.append((prop, h, subj, what))
rows.sort(key=lambda r: r[0])
fix = "\n".join("| %s | `%s` | %s | %s |" % (p, h, s.replace("fix: ", "").replace("|", "\\|"), w.replace("|", "\\|")) for p, h, s, w in rows)

mrows = []
for x in sorted(glob.glob("/verif/seeded/C??-m?")):
    m = json.load(open(x + "/meta.json"))
    caught = [r for r in m["checks_run_against_it"]["results"] if r["exit"] == 1]
    cls = ", ".join(sorted({c for r in caught for c in r["classes"]})[:3])
    mrows.append("| %s — %s | %s | `%s` |" % (m["id"], m["site"], ", ".join(m["checks_run_against_it"]["caught_by"]) or "—", cls.replace("|", "\\|")))
mut = "\n".join(mrows)


def put(d, begin, end, body):
    a = d.index(begin) + len(begin)
    b = d.index(end)
    return d[:a] + "\n" + body + "\n" + d[b:]


d = put(d, "<!-- FIXTABLE:BEGIN -->", "<!-- FIXTABLE:END -->", "| Property | Commit | Subject | Failing input / history |\n|---|---|---|---|\n" + fix)
d = put(d, "<!-- MUTTABLE:BEGIN -->", "<!-- MUTTABLE:END -->", "| Change | Caught by (quick tier) | Class |\n|---|---|---|\n" + mut)
open(D, "w").write(d)
print("fix commits: %d, seeded changes: %d" % (len(rows), len(mrows)))

# ---- results table (section 9.8): quick numbers from evidence/*.json, thorough numbers from logs/*.thorough.err when present
import os
res = []
for f in sorted(glob.glob("/verif/evidence/C??.json")):
    e = json.load(open(f)); c = e["coverage"]; pid = e["property_id"]
    th = ""
    lf = "/verif/logs/%s.thorough.err" % pid
    if os.path.exists(lf):
        last = [l for l in open(lf) if "runs=" in l and "violations=" in l]
        if last:
            m = re.search(r"runs=(\d+) ops=(\d+) distinct\(\w+\)=(\d+) violations=(\d+) known=(\d+) wall=([\d.]+)s", last[-1])
            if m:
                th = "%s runs, %s ops, %s distinct, %s violations, %s known classes, %.0f s" % (m.group(1), m.group(2), m.group(3), m.group(4), m.group(5), float(m.group(6)))
    res.append("| %s | %s | %d | %d | %d | %d | %d | %.0f s | %s |" % (pid, e["tier"], c["evaluations"], c["ops_executed"], c["distinct_nontrivial"], e["violations"], len(c.get("known_findings_matched", {})), e["wall_s"], th or "—"))
d = open(D).read()
d = put(d, "<!-- RESTABLE:BEGIN -->", "<!-- RESTABLE:END -->", "| Check | tier of evidence file | runs | ops (simulated steps) | distinct (see rule in evidence) | violations | known-finding classes matched | wall | last thorough run on this machine |\n|---|---|---|---|---|---|---|---|---|\n" + "\n".join(res))
open(D, "w").write(d)
print("results rows: %d" % len(res))
