#!/usr/bin/env python3
"""hwsim runner: worker supervision, seeded batches, crash classification, minimisation,
determinism gate, known-findings, evidence."""
import os, sys, re, time, json, subprocess, threading, tempfile, shutil, array, glob, signal

VERIF = os.path.dirname(os.path.dirname(os.path.abspath(__file__)))
sys.path.insert(0, os.path.join(VERIF, "hwsim"))
import build as hwbuild  # noqa: E402

MASK = (1 << 64) - 1


def mix64(z):
    z = (z + 0x9e3779b97f4a7c15) & MASK
    z = ((z ^ (z >> 30)) * 0xbf58476d1ce4e5b9) & MASK
    z = ((z ^ (z >> 27)) * 0x94d049bb133111eb) & MASK
    return z ^ (z >> 31)


def run_seed(base, machine_id, i):
    return mix64(mix64(base * 1000003 + machine_id) ^ (i * 0xd6e8feb86659fd93 & MASK)) >> 1  # 63 bits: fits %llu and JSON


def scrub_env(extra=None):
    """Replay must not depend on the ambient environment: drop every HWLOC_* variable, force C locale."""
    env = {k: v for k, v in os.environ.items() if not k.startswith("HWLOC_") and not k.startswith("LC_") and k != "LANG"}
    env["LC_ALL"] = "C"
    env["ASAN_SYMBOLIZER_PATH"] = shutil.which("llvm-symbolizer-14") or shutil.which("llvm-symbolizer") or ""
    env["HWSIM_REPO"] = hwbuild.REPO
    if extra:
        env.update(extra)
    return env


# ------------------------------------------------------------------------------------------------
# crash classification from a worker's stderr
FRAME = re.compile(r"^\s*#(\d+) 0x[0-9a-f]+ in (\S+) (\S+?)(?::(\d+))?(?::\d+)?$")


def classify_stderr(text, exitcode):
    """Returns (class, detail) for a dead worker, or None if the death is not understood."""
    op = "-"
    m = re.findall(r"HWSIM-OP: (\S+) (-?\d+)", text)
    if m:
        op = m[-1][0]
    opidx = m[-1][1] if m else "?"
    frames = []
    for line in text.splitlines():
        fm = FRAME.match(line)
        if fm:
            frames.append((fm.group(2), fm.group(3)))

    def top_frame():
        for fn, path in frames:
            if re.search(r"/hwloc/[^/]+\.[ch]$", path) or "/include/hwloc/" in path or "/include/private/" in path:
                return fn
        for fn, path in frames:
            if "/hwsim/" in path:
                return "harness:" + fn
        return frames[0][0] if frames else "?"

    m = re.search(r"ERROR: AddressSanitizer: (\S+)", text)
    if m:
        kind = m.group(1)
        if kind == "SEGV":
            # NULL-ish or wild
            a = re.search(r"SEGV on unknown address (0x[0-9a-f]+)", text)
            if a and int(a.group(1), 16) < 4096:
                kind = "SEGV-null"
        if kind == "requested":  # allocation-size-too-big prints "requested allocation size"
            kind = "alloc-too-big"
        return ("asan:%s:%s@%s" % (kind, top_frame(), op), "%s (op #%s)" % (m.group(0), opidx))
    m = re.search(r"ERROR: LeakSanitizer", text)
    if m:
        return ("leak@%s" % op, "LeakSanitizer")
    m = re.search(r"^(\S+?):(\d+):\d+: runtime error: (.*)$", text, re.M)
    if m:
        msg = re.sub(r"0x[0-9a-f]+", "ADDR", m.group(3))
        msg = re.sub(r"-?\d+", "N", msg)
        msg = re.sub(r"\s+", "_", msg)[:80]
        return ("ubsan:%s:%s@%s" % (msg, top_frame() if frames else os.path.basename(m.group(1)), op), m.group(0) + " (op #%s)" % opidx)
    if exitcode == 80 or "HWSIM-WATCHDOG" in text:
        return ("watchdog@%s" % op, "wall-clock watchdog expired")
    if exitcode is not None and exitcode < 0:
        return ("signal:%d@%s" % (-exitcode, op), "worker killed by signal %d without sanitizer report" % -exitcode)
    return None


# ------------------------------------------------------------------------------------------------
class RunResult:
    __slots__ = ("seed", "hash", "ops", "viol", "detail", "cut", "stats", "crashed")

    def __init__(self, seed):
        self.seed = seed
        self.hash = None
        self.ops = 0
        self.viol = None
        self.detail = ""
        self.cut = None
        self.stats = {}
        self.crashed = False


def parse_worker_lines(lines, res_by_seed):
    for line in lines:
        if line.startswith("VIOL "):
            _, seed, rest = line.split(" ", 2)
            cls, _, detail = rest.partition(" | ")
            r = res_by_seed.setdefault(int(seed), RunResult(int(seed)))
            if r.viol is None:
                r.viol, r.detail = cls.strip(), detail.strip()
        elif line.startswith("CUT "):
            _, seed, rest = line.split(" ", 2)
            by, _, detail = rest.partition(" | ")
            r = res_by_seed.setdefault(int(seed), RunResult(int(seed)))
            r.cut, r.detail = by.strip(), detail.strip()
        elif line.startswith("END "):
            head, _, st = line.partition("|")
            f = head.split()
            r = res_by_seed.setdefault(int(f[1]), RunResult(int(f[1])))
            r.hash = f[2]
            for kv in f[3:]:
                k, _, v = kv.partition("=")
                if k == "ops":
                    r.ops = int(v)
            for kv in st.split():
                k, _, v = kv.partition("=")
                try:
                    r.stats[k] = int(v)
                except ValueError:
                    pass


class Worker:
    def __init__(self, binp, pclass, wid, workdir, env_extra=None):
        self.binp, self.pclass, self.wid, self.workdir = binp, pclass, wid, workdir
        self.gen = 0
        self.env_extra = env_extra or {}
        self.proc = None
        self.errpath = None
        self.leak_suspects = []

    def start(self):
        self.gen += 1
        self.errpath = os.path.join(self.workdir, "w%d.%d.err" % (self.wid, self.gen))
        env = scrub_env(dict(self.env_extra, HWSIM_SETS_DIR=self.workdir, HWSIM_WORKER_ID=str(self.wid),
                             HWSIM_SCRATCH=os.environ.get("HWSIM_SCRATCH", "/dev/shm")))
        self.errf = open(self.errpath, "wb")
        self.proc = subprocess.Popen([self.binp, "worker", str(self.pclass)], stdin=subprocess.PIPE, stdout=subprocess.PIPE,
                                     stderr=self.errf, env=env, text=True, bufsize=1)

    def run_one(self, seed, prop, tier, timeout=900):
        """Returns RunResult. Restarts the process when needed."""
        if self.proc is None or self.proc.poll() is not None:
            self.start()
        res = {}
        try:
            self.proc.stdin.write("RUN %d %s %s\n" % (seed, prop, tier))
            self.proc.stdin.flush()
        except (BrokenPipeError, OSError):
            pass
        lines = []
        ended = False
        recycle = False
        timer = threading.Timer(timeout, lambda: self.proc.kill())
        timer.start()
        try:
            while True:
                line = self.proc.stdout.readline()
                if not line:
                    break
                line = line.rstrip("\n")
                if line.startswith("LEAK"):
                    self.leak_suspects.extend(int(x) for x in line.split()[1:])
                    continue
                if line.startswith("READY"):
                    break
                if line.startswith("RECYCLE"):
                    recycle = True
                    break
                lines.append(line)
                if line.startswith("END %d " % seed):
                    ended = True
        finally:
            timer.cancel()
        parse_worker_lines(lines, res)
        r = res.get(seed) or RunResult(seed)
        if not ended:
            # worker died inside the run
            try:
                self.proc.wait(timeout=30)
            except subprocess.TimeoutExpired:
                self.proc.kill()
                self.proc.wait()
            rc = self.proc.returncode
            self.errf.close()
            with open(self.errpath, "r", errors="replace") as f:
                text = f.read()
            r.crashed = True
            if r.viol is None:
                c = classify_stderr(text, rc)
                if c:
                    r.viol, r.detail = c
                else:
                    r.viol, r.detail = "unknown-death:rc=%s" % rc, text[-2000:]
            self.proc = None
        elif recycle:
            self.stop()
        return r

    def stop(self):
        if self.proc is not None:
            try:
                self.proc.stdin.write("QUIT\n")
                self.proc.stdin.flush()
                self.proc.stdin.close()
            except (BrokenPipeError, OSError, ValueError):
                pass
            try:
                rest = self.proc.stdout.read()
                for line in (rest or "").splitlines():
                    if line.startswith("LEAK"):
                        self.leak_suspects.extend(int(x) for x in line.split()[1:])
            except (OSError, ValueError):
                pass
            try:
                self.proc.wait(timeout=60)
            except subprocess.TimeoutExpired:
                self.proc.kill()
                self.proc.wait()
            try:
                self.errf.close()
            except Exception:
                pass
            self.proc = None


# ------------------------------------------------------------------------------------------------
def replay_plan(binp, plan_text, workdir, verbose=False, timeout=200, env_extra=None):
    """Fresh process replay. Returns (class or None, detail, hash or None, cut)."""
    fd, path = tempfile.mkstemp(prefix="cand.", suffix=".plan", dir=workdir)
    with os.fdopen(fd, "w") as f:
        f.write(plan_text)
    try:
        env = scrub_env(dict(env_extra or {}, HWSIM_SCRATCH=os.environ.get("HWSIM_SCRATCH", "/dev/shm")))
        try:
            p = subprocess.run([binp, "replay", path] + (["-v"] if verbose else []), stdout=subprocess.PIPE, stderr=subprocess.PIPE,
                               env=env, text=True, errors="replace", timeout=timeout)
            out, err, rc = p.stdout, p.stderr, p.returncode
        except subprocess.TimeoutExpired as e:
            return ("timeout@-", "replay timed out", None, None, "")
        res = {}
        parse_worker_lines(out.splitlines(), res)
        r = next(iter(res.values())) if res else RunResult(0)
        if r.hash is None and r.viol is None:
            c = classify_stderr(err, rc)
            if c:
                r.viol, r.detail = c
            elif rc != 0:
                r.viol, r.detail = "unknown-death:rc=%s" % rc, err[-2000:]
        return (r.viol, r.detail, r.hash, r.cut, out if verbose else "")
    finally:
        os.unlink(path)


def split_plan(plan_text):
    hdr, ops = [], []
    for line in plan_text.splitlines():
        (ops if line.startswith("op ") else hdr).append(line)
    return hdr, ops


def join_plan(hdr, ops):
    return "\n".join(hdr + ops) + "\n"


def minimize(binp, plan_text, target, workdir, budget=160, log=None, env_extra=None):
    """ddmin over op lines, then per-argument simplification; accepts a candidate only if it fails with
    exactly the same violation class."""
    hdr, ops = split_plan(plan_text)
    tries = [0]

    def fails(cand_ops, cand_hdr=None):
        if tries[0] >= budget:
            return False
        tries[0] += 1
        c = replay_plan(binp, join_plan(cand_hdr or hdr, cand_ops), workdir, env_extra=env_extra)
        return c[0] == target

    # 1. truncate after the failing op if we can find it quickly: try prefixes by bisection
    lo, hi = 0, len(ops)
    while lo < hi and tries[0] < budget:
        mid = (lo + hi) // 2
        if fails(ops[:mid]):
            hi = mid
        else:
            lo = mid + 1
    if hi < len(ops) and fails(ops[:hi]):
        ops = ops[:hi]
    # 2. ddmin
    n = 2
    while len(ops) >= 2 and tries[0] < budget:
        chunk = max(1, len(ops) // n)
        removed = False
        i = 0
        while i < len(ops) and tries[0] < budget:
            cand = ops[:i] + ops[i + chunk:]
            if cand and fails(cand):
                ops = cand
                removed = True
            else:
                i += chunk
        if not removed:
            if chunk == 1:
                break
            n = min(len(ops), n * 2)
        else:
            n = max(2, n - 1)
    # 3. per-argument simplification of integers
    changed = True
    while changed and tries[0] < budget:
        changed = False
        for idx in range(len(ops)):
            toks = ops[idx].split(" ")
            for t in range(2, len(toks)):
                k, _, v = toks[t].partition("=")
                try:
                    iv = int(v, 0)
                except ValueError:
                    continue
                for nv in sorted(set([0, 1, iv // 2, iv - 1]), key=abs):
                    if nv == iv or abs(nv) >= abs(iv):
                        continue
                    cand_t = list(toks)
                    cand_t[t] = "%s=%s" % (k, ("0x%x" % nv) if v.startswith("0x") and nv >= 0 else str(nv))
                    cand = list(ops)
                    cand[idx] = " ".join(cand_t)
                    if fails(cand):
                        ops = cand
                        toks = cand_t
                        changed = True
                        break
    if log:
        log("minimised to %d ops in %d replays" % (len(ops), tries[0]))
    return join_plan(hdr, ops)


# ------------------------------------------------------------------------------------------------
def load_known_findings():
    """known-findings.txt: lines `property=<id> class=<regex> :: <what fails>`; `fixed:` lines suppress nothing."""
    out = []
    p = os.path.join(VERIF, "known-findings.txt")
    if not os.path.exists(p):
        return out
    for line in open(p):
        line = line.strip()
        if not line or line.startswith("#") or line.startswith("fixed:"):
            continue
        m = re.match(r"property=(\S+)\s+class=(\S+)\s+::\s+(.*)$", line)
        if m:
            out.append((m.group(1), re.compile(m.group(2)), m.group(3)))
    return out


def count_sets(workdir, cap=4_000_000):
    """Merge the per-worker distinct-hash files. Returns {name: (count, capped)}."""
    by = {}
    for p in glob.glob(os.path.join(workdir, "set.*.bin")):
        name = os.path.basename(p).split(".")[1]
        by.setdefault(name, []).append(p)
    out = {}
    for name, paths in by.items():
        s = set()
        capped = False
        for p in paths:
            a = array.array("Q")
            with open(p, "rb") as f:
                data = f.read()
            a.frombytes(data[: len(data) // 8 * 8])
            if len(s) + len(a) > cap:
                capped = True
                a = a[: max(0, cap - len(s))]
            s.update(a)
        out[name] = (len(s), capped)
    return out


class Check:
    """One property check = one batch of seeded runs on one machine."""

    def __init__(self, prop, machine, machine_id, tier, level="exploration"):
        self.prop, self.machine, self.machine_id, self.tier, self.level = prop, machine, machine_id, tier, level
        self.base_seed = int(os.environ.get("VERIF_SEED", "1") or "1")
        self.workers = int(os.environ.get("HWSIM_WORKERS", "16"))
        self.wall_budget = 60.0
        self.max_runs = 10 ** 9
        self.min_runs = 1
        self.det_seeds = 32
        self.rule = ""
        self.nontrivial_set = "state"
        self.assumptions = []
        self.real_components = []
        self.stubbed_components = []
        self.extra_coverage = {}
        self.env_extra = {}
        self.sample_seeds = 3
        self.run_timeout = 200

    def log(self, msg):
        sys.stderr.write("[%s %s] %s\n" % (self.prop, self.tier, msg))
        sys.stderr.flush()

    def execute(self):
        t0 = time.time()
        try:
            binp = hwbuild.build(self.machine)
        except RuntimeError as e:
            sys.stderr.write(str(e) + "\n")
            print("ERROR: build failed")
            return 2
        self.log("built %s in %.1fs" % (os.path.basename(binp), time.time() - t0))
        workdir = tempfile.mkdtemp(prefix="hwsim-run.", dir=os.environ.get("HWSIM_SCRATCH", "/dev/shm") if os.access(os.environ.get("HWSIM_SCRATCH", "/dev/shm"), os.W_OK) else None)
        try:
            return self._execute(binp, workdir, t0)
        finally:
            shutil.rmtree(workdir, ignore_errors=True)
            shutil.rmtree(os.path.join(os.environ.get("HWSIM_SCRATCH", "/dev/shm"), "hwsim.%d.snapmaster" % os.getpid()), ignore_errors=True)
            for d in glob.glob(os.path.join(os.environ.get("HWSIM_SCRATCH", "/dev/shm"), "hwsim.*")):
                # scratch dirs of workers that were killed
                try:
                    pid = int(os.path.basename(d).split(".")[1])
                    os.kill(pid, 0)
                except (ValueError, ProcessLookupError, IndexError):
                    shutil.rmtree(d, ignore_errors=True)
                except PermissionError:
                    pass

    def _execute(self, binp, workdir, t0):
        ncls = int(subprocess.run([binp, "nclasses", self.prop], stdout=subprocess.PIPE, text=True, env=scrub_env()).stdout.strip() or "1")
        results = {}
        suspects = []
        lock = threading.Lock()
        counter = [0]
        deadline = time.time() + self.wall_budget
        stop = [False]

        def next_index(pclass):
            # run index i belongs to class (seed_i % ncls); each class walks the indices in order
            with lock:
                while True:
                    i = counter[0]
                    counter[0] += 1
                    return i

        # simple static partition: worker w takes indices i with i % W == w; class = seed % ncls is honoured by
        # giving every worker one sub-process per class lazily
        def work(w):
            procs = {}
            i = w
            n_done = 0
            while not stop[0]:
                if i >= self.max_runs:
                    break
                if time.time() > deadline and (i >= self.min_runs):
                    break
                seed = run_seed(self.base_seed, self.machine_id, i)
                pclass = seed % ncls
                wk = procs.get(pclass)
                if wk is None:
                    wk = procs[pclass] = Worker(binp, pclass, w * 64 + pclass, workdir, self.env_extra)
                r = wk.run_one(seed, self.prop, self.tier, timeout=self.run_timeout)
                with lock:
                    results[i] = r
                i += self.workers
                n_done += 1
            for wk in procs.values():
                wk.stop()
                with lock:
                    suspects.extend(wk.leak_suspects)

        threads = [threading.Thread(target=work, args=(w,)) for w in range(self.workers)]
        for t in threads:
            t.start()
        for t in threads:
            t.join()
        batch_wall = time.time() - t0
        nruns = len(results)
        self.log("%d runs in %.1fs" % (nruns, batch_wall))

        # ---------------- leak attribution: suspects of a batched LeakSanitizer check are re-run one by one
        if suspects:
            self.log("LeakSanitizer fired in a batch check: re-running %d suspect seeds individually" % len(suspects))
            by_seed = {r.seed: i for i, r in results.items()}
            wkl = {}
            for seed in sorted(set(suspects))[:256]:
                pclass = seed % ncls
                wk = wkl.get(pclass)
                if wk is None or wk.proc is None:
                    wk = wkl[pclass] = Worker(binp, pclass, 8000 + pclass, workdir, dict(self.env_extra, HWSIM_LEAK_EVERY="1"))
                r2 = wk.run_one(seed, self.prop, self.tier, timeout=self.run_timeout)
                if r2.viol and seed in by_seed:
                    results[by_seed[seed]] = r2
            for wk in wkl.values():
                wk.stop()

        # ---------------- workers killed from outside (SIGKILL: OOM killer, operator) say nothing about the run: once more, alone
        killed = [i for i in sorted(results) if (results[i].viol or "").startswith("signal:9")]
        if killed:
            self.log("%d runs ended with SIGKILL (not raised by the system under test): re-running them individually" % len(killed))
            wkk = {}
            for i in killed[:64]:
                seed = results[i].seed
                pclass = seed % ncls
                wk = wkk.get(pclass)
                if wk is None or wk.proc is None:
                    wk = wkk[pclass] = Worker(binp, pclass, 8500 + pclass, workdir, self.env_extra)
                results[i] = wk.run_one(seed, self.prop, self.tier, timeout=self.run_timeout)
            for wk in wkk.values():
                wk.stop()

        # ---------------- determinism gate: first D completed seeds again, in other worker processes, other ids
        det_mismatch = []
        det_checked = 0
        idxs = [i for i in sorted(results) if results[i].hash and not results[i].viol and not results[i].cut][: self.det_seeds]
        if idxs:
            wk2 = {}
            for i in idxs:
                seed = results[i].seed
                pclass = seed % ncls
                wk = wk2.get(pclass)
                if wk is None:
                    wk = wk2[pclass] = Worker(binp, pclass, 9000 + pclass, workdir + "/", self.env_extra)
                r2 = wk.run_one(seed, self.prop, self.tier, timeout=self.run_timeout)
                det_checked += 1
                if r2.hash != results[i].hash:
                    det_mismatch.append((seed, results[i].hash, r2.hash))
            for wk in wk2.values():
                wk.stop()
        if det_mismatch:
            self.log("DETERMINISM GATE FAILED: %r" % det_mismatch[:5])
            print("ERROR: nondeterministic runs (seed, hash1, hash2): %r" % det_mismatch[:5])
            return 2

        # ---------------- violations: group by class, minimise the first seed of each, gate, match known findings
        known = load_known_findings()
        by_class = {}
        for i in sorted(results):
            r = results[i]
            if r.viol:
                by_class.setdefault(r.viol, []).append(r)
        new_violations = []
        known_hits = {}
        exit_code = 0
        unreproducible = 0
        fresh_seen = set()
        rpdir = os.environ.get("HWSIM_REPLAY_DIR", os.path.join(VERIF, "replays"))
        os.makedirs(rpdir, exist_ok=True)
        for old in glob.glob(os.path.join(rpdir, self.prop + "-*.plan")):
            os.unlink(old)
        for cls in sorted(by_class):
            rs = by_class[cls]
            if cls in fresh_seen:
                continue
            kf = next((k for k in known if k[0] == self.prop and k[1].search(cls)), None)
            if kf:
                known_hits[cls] = (kf[2], len(rs))
                continue
            r = rs[0]
            self.log("violation class %s (%d runs), seed %d: %s" % (cls, len(rs), r.seed, r.detail[:300]))
            pclass = r.seed % ncls
            plan = subprocess.run([binp, "gen", str(r.seed), self.prop, self.tier, str(pclass)], stdout=subprocess.PIPE, text=True, env=scrub_env(self.env_extra)).stdout
            # gate 1: fresh-process replay of the generated plan reproduces the class
            c1 = replay_plan(binp, plan, workdir, env_extra=self.env_extra)
            if c1[0] != cls:
                c1b = replay_plan(binp, plan, workdir, env_extra=self.env_extra)
                self.log("replay gate: seed %d, batch class %s, fresh-process classes %s / %s" % (r.seed, cls, c1[0], c1b[0]))
                if c1[0] and c1[0] == c1b[0] and c1[2] == c1b[2]:
                    # the plan does violate, reproducibly, but a fresh process names it differently (the batch process carried
                    # state of earlier runs, e.g. heap layout after an undetected corruption): report under the fresh-process class
                    if c1[0] in fresh_seen:
                        continue
                    fresh_seen.add(c1[0])
                    cls = c1[0]
                    r = RunResult(r.seed)
                    r.viol, r.detail = c1[0], c1[1]
                    kf = next((k for k in known if k[0] == self.prop and k[1].search(cls)), None)
                    if kf:
                        known_hits[cls] = (kf[2], len(rs))
                        continue
                else:
                    print("ERROR: violation of class %s (seed %d) does not reproduce in a fresh process (got %s)" % (cls, r.seed, c1[0]))
                    unreproducible += 1
                    continue
            if cls.startswith(("watchdog", "timeout")):
                small = plan   # every replay of a hang costs the whole watchdog period: reported unminimised
            elif len(new_violations) < 6:
                small = minimize(binp, plan, cls, workdir, log=self.log, env_extra=self.env_extra)
            else:
                small = plan   # many classes at once: report the rest unminimised rather than spend minutes
            c2 = replay_plan(binp, small, workdir, env_extra=self.env_extra)
            c3 = replay_plan(binp, small, workdir, env_extra=self.env_extra)
            if c2[0] != cls or c3[0] != cls or c2[2] != c3[2]:
                self.log("minimised plan does not replay identically (%s/%s, %s/%s); reporting the unminimised plan" % (c2[0], c3[0], c2[2], c3[2]))
                small = plan
            rp = os.path.join(rpdir, "%s-%d.plan" % (self.prop, r.seed))
            with open(rp, "w") as f:
                f.write("# violation class: %s\n# detail: %s\n# replay: ./check --replay %s\n" % (cls, r.detail.replace("\n", " ")[:500], rp))
                f.write(small)
            new_violations.append((cls, r.seed, rp, r.detail, len(rs)))
            fresh_seen.add(cls)
        # ---------------- regression plans: minimised histories of defects that were repaired (fix: commits); they must stay clean
        regress_n = 0
        for path in sorted(glob.glob(os.path.join(VERIF, "regress", self.prop + "-*.plan"))):
            c = replay_plan(binp, open(path).read(), workdir, env_extra=self.env_extra)
            regress_n += 1
            if c[0] and c[0] not in fresh_seen:
                kf = next((k for k in known if k[0] == self.prop and k[1].search(c[0])), None)
                if kf:
                    known_hits.setdefault(c[0], (kf[2], 1))
                else:
                    fresh_seen.add(c[0])
                    new_violations.append((c[0], 0, path, "regression plan violates again: " + c[1], 1))
        for cls, (what, n) in sorted(known_hits.items()):
            print("KNOWN-FINDING: property=%s %s [class %s, %d runs]" % (self.prop, what, cls, n))
        for cls, seed, rp, detail, n in new_violations:
            print("VIOLATION property=%s replay=%s" % (self.prop, rp))
            print("  class=%s seed=%d runs=%d detail=%s" % (cls, seed, n, detail[:400]))
            exit_code = 1
        if unreproducible and not new_violations:
            exit_code = 2

        # ---------------- evidence
        stats = {}
        total_ops = 0
        cut = {}
        for r in results.values():
            total_ops += r.ops
            for k, v in r.stats.items():
                stats[k] = stats.get(k, 0) + v
            if r.cut:
                cut[r.cut] = cut.get(r.cut, 0) + 1
        sets = count_sets(workdir)
        samples = []
        shown = 0
        for i in sorted(results):
            if shown >= self.sample_seeds:
                break
            seed = results[i].seed
            plan = subprocess.run([binp, "gen", str(seed), self.prop, self.tier, str(seed % ncls)], stdout=subprocess.PIPE, text=True, env=scrub_env(self.env_extra)).stdout
            lines = plan.splitlines()
            if len(lines) > 40:
                lines = lines[:40] + ["... (%d more ops)" % (len(lines) - 40)]
            samples.append({"seed": seed, "event_log_hash": results[i].hash, "plan": lines})
            shown += 1
        wall = time.time() - t0
        dn = sets.get(self.nontrivial_set, (0, False))
        probes = {k[6:]: v for k, v in stats.items() if k.startswith("probe.")}
        faults = {k[6:]: v for k, v in stats.items() if k.startswith("fault.")}
        other = {k: v for k, v in stats.items() if not k.startswith("probe.") and not k.startswith("fault.")}
        cov = {
            "evaluations": nruns,
            "distinct_nontrivial": dn[0],
            "rule": self.rule,
            "samples": samples,
            "runs_per_hour": int(nruns / max(batch_wall, 1e-6) * 3600),
            "ops_executed": total_ops,
            "simulated_time": "%d logical steps (ops); hwloc has no clock, timers or sleeps" % total_ops,
            "faults_fired": faults,
            "probes": probes,
            "counters": other,
            "distinct_sets": {k: {"count": v[0], "capped": v[1]} for k, v in sets.items()},
            "runs_cut_short_by": cut,
            "determinism_selfcheck": {"seeds_rerun_in_other_process": det_checked, "mismatches": 0},
            "violating_runs": sum(len(v) for v in by_class.values()),
            "violation_classes": sorted(by_class),
            "known_findings_matched": {c: n for c, (w, n) in known_hits.items()},
            "real_components": self.real_components,
            "stubbed_components": self.stubbed_components,
            "regression_plans_replayed": regress_n,
            "workers": self.workers,
            "planned_runs": self.max_runs if self.max_runs < 10 ** 9 else None,
            "index_range": "run i uses run_seed(VERIF_SEED, machine, i), i = 0..planned_runs-1; verdict is a function of (VERIF_SEED, tier, tree)",
            "wall_cap_s": self.wall_budget,
            "cap_hit": bool(self.max_runs < 10 ** 9 and nruns < self.max_runs),
            "process_classes": ncls,
            "pure_input_evaluations": stats.get("pure_input_evaluations", 0),
        }
        cov.update(self.extra_coverage)
        ev = {
            "property_id": self.prop, "tier": self.tier, "seed": self.base_seed, "level": self.level,
            "coverage": cov, "assumptions": self.assumptions, "wall_s": round(wall, 2),
            "violations": len(new_violations),
        }
        evdir = os.environ.get("HWSIM_EVIDENCE_DIR", os.path.join(VERIF, "evidence"))   # mutant runs write elsewhere
        os.makedirs(evdir, exist_ok=True)
        with open(os.path.join(evdir, self.prop + ".json"), "w") as f:
            json.dump(ev, f, indent=1, sort_keys=False)
            f.write("\n")
        zero_probes = [k for k, v in probes.items() if v == 0]
        self.log("runs=%d ops=%d distinct(%s)=%d violations=%d known=%d wall=%.1fs" % (nruns, total_ops, self.nontrivial_set, dn[0], len(new_violations), len(known_hits), wall))
        if nruns == 0:
            print("ERROR: no run completed")
            return 2
        return exit_code


def replay_file(path, verbose=True):
    text = open(path).read()
    m = re.search(r"^machine (\S+)", text, re.M)
    if not m:
        print("not a plan file")
        return 2
    binp = hwbuild.build(m.group(1))
    workdir = tempfile.mkdtemp(prefix="hwsim-replay.")
    try:
        cls, detail, h, cut, out = replay_plan(binp, text, workdir, verbose=verbose)
        if verbose:
            sys.stdout.write(out)
        pm = re.search(r"^prop (\S+)", text, re.M)
        prop = pm.group(1) if pm else "?"
        print("replay: hash=%s class=%s cut=%s" % (h, cls, cut))
        if cls:
            print("VIOLATION property=%s replay=%s" % (prop, path))
            print("  detail=%s" % detail)
            return 1
        return 0
    finally:
        shutil.rmtree(workdir, ignore_errors=True)
        shutil.rmtree(os.path.join(os.environ.get("HWSIM_SCRATCH", "/dev/shm"), "hwsim.%d.snapmaster" % os.getpid()), ignore_errors=True)
