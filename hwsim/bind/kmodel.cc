// Kernel model for the binding machine (C10); see kmodel.h for the semantics and their sources.
#ifndef _GNU_SOURCE
#define _GNU_SOURCE
#endif
#include "kmodel.h"
#include <sched.h>
#include <stdarg.h>
#include <stdio.h>
#include <stdlib.h>
#include <string.h>
#include <errno.h>
#include <fcntl.h>
#include <unistd.h>
#include <sys/mman.h>
#include <sys/syscall.h>

extern "C" {
long __real_syscall(long nr, ...);
int __real_openat(int dirfd, const char *path, int flags, ...);
long __real_sysconf(int name);
}

namespace kmodel {

enum { K_MPOL_DEFAULT = 0, K_MPOL_PREFERRED = 1, K_MPOL_BIND = 2, K_MPOL_INTERLEAVE = 3, K_MPOL_LOCAL = 4, K_MPOL_PREFERRED_MANY = 5, K_MPOL_WEIGHTED_INTERLEAVE = 6 };
enum { K_MPOL_F_NODE = 1, K_MPOL_F_ADDR = 2, K_MPOL_F_MEMS_ALLOWED = 4 };
enum { K_MPOL_MF_STRICT = 1, K_MPOL_MF_MOVE = 2, K_MPOL_MF_MOVE_ALL = 4 };
const unsigned long K_PAGE = 4096;

static Kernel g_k;
Kernel &k() { return g_k; }

std::string set_str(const Set &s) {
  if (s.empty()) return "-";
  std::string o; char b[48];
  for (auto it = s.begin(); it != s.end();) {
    unsigned a = *it, e = a; ++it;
    while (it != s.end() && *it == e + 1) { e = *it; ++it; }
    if (!o.empty()) o += ",";
    if (a == e) snprintf(b, sizeof b, "%u", a); else snprintf(b, sizeof b, "%u-%u", a, e);
    o += b;
  }
  return o;
}

const char *kind_name(Kind kd) {
  switch (kd) {
    case SETAFF: return "sched_setaffinity"; case GETAFF: return "sched_getaffinity"; case PSETAFF: return "pthread_setaffinity_np";
    case PGETAFF: return "pthread_getaffinity_np"; case GETCPU: return "sched_getcpu"; case SET_MEMPOLICY: return "set_mempolicy";
    case GET_MEMPOLICY: return "get_mempolicy"; case MBIND: return "mbind"; case MIGRATE_PAGES: return "migrate_pages";
    case MOVE_PAGES: return "move_pages"; case FILE_READ: return "open";
  }
  return "?";
}

static const char *errname(int e) {
  switch (e) { case 0: return "0"; case EINVAL: return "EINVAL"; case ESRCH: return "ESRCH"; case EPERM: return "EPERM"; case EFAULT: return "EFAULT";
    case ENOENT: return "ENOENT"; case ENOSYS: return "ENOSYS"; case EIO: return "EIO"; default: return "E?"; }
}

std::string Call::str() const {
  char b[256]; std::string o = kind_name(kind);
  if (kind == FILE_READ) { o += " " + file; }
  else {
    if (tidx != -1) { snprintf(b, sizeof b, " t%d", tidx); o += tidx == -2 ? " t?" : b; }
    if (kind == SETAFF || kind == GETAFF || kind == PSETAFF || kind == PGETAFF) { snprintf(b, sizeof b, " sz=%lu", size); o += b; }
    if (kind == SET_MEMPOLICY || kind == MBIND) { snprintf(b, sizeof b, " mode=%d maxnode=%lu%s", mode, size, mask_null ? " nomask" : ""); o += b; }
    if (kind == GET_MEMPOLICY || kind == MIGRATE_PAGES) { snprintf(b, sizeof b, " maxnode=%lu", size); o += b; }
    if (kind == MBIND || kind == GET_MEMPOLICY) { snprintf(b, sizeof b, " fl=%lu", flags); o += b; }
    if (kind == MBIND || kind == MOVE_PAGES) { snprintf(b, sizeof b, " pages=%lu", pages); o += b; }
    if (kind != GETCPU && kind != MOVE_PAGES) o += " {" + set_str(set) + "}";
  }
  if (ret < 0 || err) { snprintf(b, sizeof b, " =%ld/%s(%s)", ret, errname(err), refusal ? refusal : ""); o += b; }
  else { snprintf(b, sizeof b, " =%ld", ret); o += b; }
  return o;
}

void Kernel::configure(int pclass) {
  static const unsigned cpus[5] = {8, 64, 128, 1024, 8192};
  static const unsigned nids[5] = {4, 64, 65, 256, 1024};
  static const unsigned maxn[5] = {64, 64, 128, 256, 1024};
  if (pclass < 0) pclass = 0;
  int i = pclass % 5;
  nr_cpu_ids = cpus[i]; nr_node_ids = nids[i]; max_numnodes = maxn[i];
  new_mempolicy = (pclass / 5) % 2 != 0;
  sysfs_possible = (pclass / 10) % 2 != 0;
}

std::string Kernel::config_str() const {
  char b[160]; snprintf(b, sizeof b, "nr_cpu_ids=%u nr_node_ids=%u max_numnodes=%u new_mempolicy=%d sysfs_possible=%d", nr_cpu_ids, nr_node_ids, max_numnodes, (int)new_mempolicy, (int)sysfs_possible);
  return b;
}

void Kernel::register_thread(pthread_t p, int tid) { for (int t : tids) if (t == tid) return; tids.push_back(tid); pths.push_back(p); }
int Kernel::tid_index(int tid) const { for (size_t i = 0; i < tids.size(); i++) if (tids[i] == tid) return (int)i; return -2; }
int Kernel::self_tid() const { return (int)__real_syscall(SYS_gettid); }

unsigned long Kernel::pick(unsigned long n) { rng ^= rng << 13; rng ^= rng >> 7; rng ^= rng << 17; return n ? (unsigned long)((rng * 0x2545F4914F6CDD1DULL) >> 33) % n : 0; }

void Kernel::reset_run(uint64_t seed) {
  aff.clear(); pol.clear(); curcpu.clear(); pages.clear(); calls.clear();
  online.clear(); allowed.clear(); present.clear(); nodes.clear();
  for (unsigned i = 0; i < nr_cpu_ids && i < 4; i++) { online.insert(i); allowed.insert(i); present.insert(i); }
  nodes.insert(0);
  rng = seed * 0x9e3779b97f4a7c15ULL + 0x632be59bd9b4e019ULL; if (!rng) rng = 1;
  pick(1); pick(1);
}

Set Kernel::observable_mask(int tid) const {
  auto it = aff.find(tid); const Set &m = it == aff.end() ? allowed : it->second;
  Set o; for (unsigned c : m) if (online.count(c)) o.insert(c);
  return o;
}
Policy Kernel::policy_of(int tid) const { auto it = pol.find(tid); return it == pol.end() ? Policy() : it->second; }

void Kernel::redraw(int tid) {
  Set m = observable_mask(tid);
  if (m.empty()) { curcpu[tid] = online.empty() ? 0 : (int)*online.begin(); return; }
  auto it = m.begin(); std::advance(it, pick(m.size())); curcpu[tid] = (int)*it;
}

void Kernel::set_online(unsigned cpu, bool on) {
  if (cpu >= nr_cpu_ids || !present.count(cpu)) return;
  if (on) online.insert(cpu); else { if (online.size() <= 1) return; online.erase(cpu); }
  for (int t : tids) {
    if (observable_mask(t).empty()) aff.erase(t);          // select_fallback_rq(): back to the cpuset of the task
    // ... and to any possible CPU if that has nothing online either. Linux then also widens what the task may be bound to (a cpuset whose
    // CPUs are all offline inherits the effective CPUs of its parent): the mask the kernel reports for a thread is always one it accepts back
    if (observable_mask(t).empty()) { for (unsigned x : online) allowed.insert(x); aff[t] = online; }
    auto c = curcpu.find(t);
    if (c == curcpu.end() || !observable_mask(t).count((unsigned)c->second)) redraw(t);
  }
}

void Kernel::forget_range(const void *addr, size_t len) {
  uintptr_t a = (uintptr_t)addr & ~(uintptr_t)(K_PAGE - 1), e = (uintptr_t)addr + len;
  for (; a < e; a += K_PAGE) pages.erase(a);
}

// ------------------------------------------------------------------------------------------------
// the system calls (ordinary, sanitizer-instrumented code: user buffers are read and written with the
// sizes the caller promised, so a buffer shorter than its announced size is an ASan report)

static Call &begin(Kind kd) { g_k.ncalls++; g_k.calls.emplace_back(); Call &c = g_k.calls.back(); c.kind = kd; return c; }
static long refuse(Call &c, int e, const char *why) { c.ret = -1; c.err = e; c.refusal = why; errno = e; return -1; }

static void decode_cpus(const void *mask, size_t sz, Set &out) {
  const unsigned char *p = (const unsigned char *)mask;
  for (size_t i = 0; i < sz; i++) { unsigned char v = p[i]; if (!v) continue; for (int b = 0; b < 8; b++) if (v >> b & 1) out.insert((unsigned)(i * 8 + b)); }
}

static int resolve_tid(pid_t pid) { return pid ? (int)pid : g_k.self_tid(); }

static long do_setaffinity(Kind kd, int tid, size_t sz, const void *mask) {
  Call &c = begin(kd); c.size = sz; c.tidx = g_k.tid_index(tid);
  decode_cpus(mask, sz, c.set);
  if (c.tidx == -2) return refuse(c, ESRCH, "unknown_tid");
  Set eff; bool any_online = false;
  for (unsigned x : c.set) if (x < g_k.nr_cpu_ids && g_k.allowed.count(x)) { eff.insert(x); if (g_k.online.count(x)) any_online = true; }
  if (!any_online) {
    bool named_offline = false; for (unsigned x : c.set) if (x < g_k.nr_cpu_ids && g_k.present.count(x) && !g_k.online.count(x)) named_offline = true;
    return refuse(c, EINVAL, named_offline ? "setaffinity_offline_cpu" : "setaffinity_no_allowed_cpu");
  }
  g_k.aff[tid] = eff; g_k.redraw(tid);
  return 0;
}

static long do_getaffinity(Kind kd, int tid, size_t sz, void *mask) {
  Call &c = begin(kd); c.size = sz; c.tidx = g_k.tid_index(tid);
  if (sz * 8 < g_k.nr_cpu_ids || (sz & (sizeof(long) - 1))) return refuse(c, EINVAL, "getaffinity_small_cpusetsize");
  if (c.tidx == -2) return refuse(c, ESRCH, "unknown_tid");
  c.set = g_k.observable_mask(tid);
  memset(mask, 0, sz);
  unsigned char *p = (unsigned char *)mask;
  for (unsigned x : c.set) p[x / 8] |= (unsigned char)(1u << (x % 8));
  return 0;
}

// get_nodes() of mm/mempolicy.c
static int get_nodes(const unsigned long *nmask, unsigned long maxnode, Set &out, const char **why) {
  if (maxnode) --maxnode;
  if (maxnode == 0 || !nmask) return 0;
  if (maxnode > K_PAGE * 8) { *why = "maxnode_too_large"; return EINVAL; }
  unsigned long nlongs = (maxnode + 63) / 64;
  for (unsigned long w = 0; w < nlongs; w++) {
    unsigned long v = nmask[w];
    if (w == nlongs - 1 && maxnode % 64) v &= (1UL << (maxnode % 64)) - 1;
    if (!v) continue;
    for (int b = 0; b < 64; b++) if (v >> b & 1) out.insert((unsigned)(w * 64 + b));
  }
  for (unsigned x : out) if (x >= g_k.max_numnodes) { *why = "node_above_MAX_NUMNODES"; return EINVAL; }
  return 0;
}

// mpol_new() + mpol_set_nodemask()
static int make_policy(int mode, const Set &user, Policy &out, const char **why) {
  int m = mode & 0xffff; int mflags = mode & ~0xffff;
  if (mflags & ~((1 << 15) | (1 << 14) | (1 << 13))) { *why = "bad_mode_flags"; return EINVAL; }
  int maxmode = g_k.new_mempolicy ? K_MPOL_WEIGHTED_INTERLEAVE : K_MPOL_LOCAL;
  if (m < 0 || m > maxmode) { *why = m == K_MPOL_PREFERRED_MANY ? "mempolicy_preferred_many_unsupported" : m == K_MPOL_WEIGHTED_INTERLEAVE ? "mempolicy_weighted_interleave_unsupported" : "mempolicy_unknown_mode"; return EINVAL; }
  out = Policy();
  if (m == K_MPOL_DEFAULT) { if (!user.empty()) { *why = "mempolicy_default_with_nodes"; return EINVAL; } return 0; }
  if (m == K_MPOL_LOCAL) { if (!user.empty() || mflags) { *why = "mempolicy_local_with_nodes"; return EINVAL; } out.mode = K_MPOL_LOCAL; return 0; }
  if (m == K_MPOL_PREFERRED && user.empty()) { if (mflags) { *why = "mempolicy_local_with_flags"; return EINVAL; } out.mode = K_MPOL_LOCAL; return 0; }
  if (user.empty()) { *why = "mempolicy_needs_nodes"; return EINVAL; }
  Set eff; for (unsigned x : user) if (g_k.nodes.count(x)) eff.insert(x);
  if (eff.empty()) { *why = "mempolicy_no_existing_node"; return EINVAL; }
  out.mode = m;
  if (m == K_MPOL_PREFERRED) out.nodes.insert(*eff.begin()); else out.nodes = eff;
  return 0;
}

static long sys_set_mempolicy(int mode, const unsigned long *nmask, unsigned long maxnode) {
  Call &c = begin(SET_MEMPOLICY); c.mode = mode; c.size = maxnode; c.mask_null = !nmask; int tid = g_k.self_tid(); c.tidx = g_k.tid_index(tid);
  const char *why = ""; int e = get_nodes(nmask, maxnode, c.set, &why); if (e) return refuse(c, e, why);
  Policy p; e = make_policy(mode, c.set, p, &why); if (e) return refuse(c, e, why);
  if (p.mode == K_MPOL_DEFAULT) g_k.pol.erase(tid); else g_k.pol[tid] = p;
  return 0;
}

static long sys_get_mempolicy(int *mode, unsigned long *nmask, unsigned long maxnode, void *addr, unsigned long flags) {
  Call &c = begin(GET_MEMPOLICY); c.size = maxnode; c.flags = flags; c.mask_null = !nmask; int tid = g_k.self_tid(); c.tidx = g_k.tid_index(tid);
  if (flags & ~(unsigned long)(K_MPOL_F_NODE | K_MPOL_F_ADDR | K_MPOL_F_MEMS_ALLOWED)) return refuse(c, EINVAL, "get_mempolicy_bad_flags");
  if (nmask && maxnode < g_k.nr_node_ids) return refuse(c, EINVAL, "get_mempolicy_small_maxnode");
  if (flags & (K_MPOL_F_NODE | K_MPOL_F_MEMS_ALLOWED)) return refuse(c, EINVAL, "get_mempolicy_unmodelled_flag");
  Policy p;
  if (flags & K_MPOL_F_ADDR) {
    auto it = g_k.pages.find((uintptr_t)addr & ~(uintptr_t)(K_PAGE - 1));
    p = it != g_k.pages.end() ? it->second : g_k.policy_of(tid);
  } else { if (addr) return refuse(c, EINVAL, "get_mempolicy_addr_without_flag"); p = g_k.policy_of(tid); }
  int m = p.mode;
  if (m == K_MPOL_LOCAL && !g_k.new_mempolicy) m = K_MPOL_PREFERRED;   // before 5.14: reported as MPOL_PREFERRED with an empty mask
  if (mode) *mode = m;
  if (nmask) {
    unsigned long nlongs = (((maxnode ? maxnode - 1 : 0) + 63) / 64);   // copy_nodes_to_user(): ALIGN(maxnode-1, 64) bits
    if (nlongs * 8 > K_PAGE) { unsigned long cap = (g_k.nr_node_ids + 63) / 64; if (nlongs > cap && nlongs * 8 > K_PAGE + cap * 8) return refuse(c, EINVAL, "get_mempolicy_maxnode_too_large"); }
    for (unsigned long w = 0; w < nlongs; w++) nmask[w] = 0;
    for (unsigned x : p.nodes) if (x / 64 < nlongs) nmask[x / 64] |= 1UL << (x % 64);
    c.set = p.nodes;
  }
  c.mode = m;
  return 0;
}

static long sys_mbind(unsigned long start, unsigned long len, int mode, const unsigned long *nmask, unsigned long maxnode, unsigned long flags) {
  Call &c = begin(MBIND); c.mode = mode; c.size = maxnode; c.flags = flags; c.mask_null = !nmask; c.tidx = g_k.tid_index(g_k.self_tid());
  c.pages = (len + K_PAGE - 1) / K_PAGE;
  const char *why = "";
  if (flags & ~(unsigned long)(K_MPOL_MF_STRICT | K_MPOL_MF_MOVE | K_MPOL_MF_MOVE_ALL)) return refuse(c, EINVAL, "mbind_bad_flags");
  if (flags & K_MPOL_MF_MOVE_ALL) return refuse(c, EPERM, "mbind_move_all");
  if (start & (K_PAGE - 1)) return refuse(c, EINVAL, "mbind_unaligned");
  int e = get_nodes(nmask, maxnode, c.set, &why); if (e) return refuse(c, e, why);
  Policy p; e = make_policy(mode, c.set, p, &why); if (e) return refuse(c, e, why);
  unsigned long end = start + c.pages * K_PAGE;
  if (end < start) return refuse(c, EINVAL, "mbind_wraps");
  if (c.pages > (1UL << 20)) return refuse(c, EFAULT, "mbind_unmapped");
  for (unsigned long a = start; a < end; a += K_PAGE) { if (p.mode == K_MPOL_DEFAULT) g_k.pages.erase(a); else g_k.pages[a] = p; }
  return 0;
}

static long sys_migrate_pages(int pid, unsigned long maxnode, const unsigned long *oldn, const unsigned long *newn) {
  Call &c = begin(MIGRATE_PAGES); c.size = maxnode; c.tidx = g_k.tid_index(resolve_tid(pid));
  const char *why = ""; Set o; int e = get_nodes(newn, maxnode, c.set, &why); if (e) return refuse(c, e, why);   // (decoded first so that the record shows it)
  e = get_nodes(oldn, maxnode, o, &why); if (e) return refuse(c, e, why);
  if (c.tidx == -2) return refuse(c, ESRCH, "unknown_tid");
  bool any = false; for (unsigned x : c.set) if (g_k.nodes.count(x)) any = true;
  if (!any) return refuse(c, EINVAL, "migrate_pages_no_existing_node");
  return 0;   // number of pages that could not be moved
}

static long sys_move_pages(int pid, unsigned long count, void **pgs, const int *nodes, int *status, int flags) {
  Call &c = begin(MOVE_PAGES); c.pages = count; c.flags = (unsigned long)flags; c.tidx = g_k.tid_index(resolve_tid(pid));
  if (flags & ~(K_MPOL_MF_MOVE | K_MPOL_MF_MOVE_ALL)) return refuse(c, EINVAL, "move_pages_bad_flags");
  if (c.tidx == -2) return refuse(c, ESRCH, "unknown_tid");
  if (nodes) return refuse(c, EPERM, "move_pages_unmodelled_move");
  for (unsigned long i = 0; i < count; i++) {
    auto it = g_k.pages.find((uintptr_t)pgs[i] & ~(uintptr_t)(K_PAGE - 1));
    status[i] = (it != g_k.pages.end() && !it->second.nodes.empty()) ? (int)*it->second.nodes.begin() : -ENOENT;   // untouched page
    if (status[i] >= 0) c.set.insert((unsigned)status[i]);
  }
  return 0;
}

// ------------------------------------------------------------------------------------------------
// model files: what the binding code reads from /sys and /proc on the running system
static int serve(const char *name, const std::string &content) {
  Call &c = begin(FILE_READ); c.file = name;
  int fd = (int)__real_syscall(SYS_memfd_create, "hwsim-kmodel", 0);
  if (fd < 0) { c.ret = -1; c.err = EIO; c.refusal = "memfd"; errno = EIO; return -1; }
  if (write(fd, content.data(), content.size()) != (ssize_t)content.size() || lseek(fd, 0, SEEK_SET) != 0) { close(fd); c.ret = -1; c.err = EIO; errno = EIO; return -1; }
  return fd;
}
static int serve_missing(const char *name) { Call &c = begin(FILE_READ); c.file = name; c.ret = -1; c.err = ENOENT; c.refusal = "no_such_file"; errno = ENOENT; return -1; }

static int model_open(const char *path, bool *handled) {
  *handled = false;
  if (!g_k.files || !path) return -1;
  char b[64];
  if (!strcmp(path, "/sys/devices/system/cpu/possible") || !strcmp(path, "/sys/devices/system/node/possible")) {
    *handled = true; bool cpu = path[20] == 'c';
    const char *nm = cpu ? "sys/cpu/possible" : "sys/node/possible";
    if (!g_k.sysfs_possible) return serve_missing(nm);
    unsigned n = cpu ? g_k.nr_cpu_ids : g_k.nr_node_ids;
    if (n > 1) snprintf(b, sizeof b, "0-%u\n", n - 1); else snprintf(b, sizeof b, "0\n");
    return serve(nm, b);
  }
  int tid = 0, off = 0;
  if (sscanf(path, "/proc/%d/stat%n", &tid, &off) == 1 && off > 0 && !path[off]) {
    *handled = true;
    int ti = g_k.tid_index(tid);
    if (ti == -2) return serve_missing("proc/t?/stat");
    snprintf(b, sizeof b, "proc/t%d/stat", ti);
    auto cc = g_k.curcpu.find(tid); if (cc == g_k.curcpu.end()) { g_k.redraw(tid); cc = g_k.curcpu.find(tid); }
    std::string s = "1 (hw sim) name) R";            // the command name may contain blanks and parentheses
    for (int i = 0; i < 35; i++) s += " " + std::to_string(70000 + i);   // no other field looks like a CPU number: a parser that lands on the wrong column reports a CPU nobody has
    s += " " + std::to_string(cc->second) + " 70100 70101 70102\n";
    int fd = serve(b, s);
    if (fd >= 0) { g_k.calls.back().set.insert((unsigned)cc->second); }
    return fd;
  }
  return -1;
}

}  // namespace kmodel

using namespace kmodel;

extern "C" {

int __wrap_sched_setaffinity(pid_t pid, size_t sz, const cpu_set_t *m) { return (int)do_setaffinity(SETAFF, resolve_tid(pid), sz, m); }
int __wrap_sched_getaffinity(pid_t pid, size_t sz, cpu_set_t *m) { return (int)do_getaffinity(GETAFF, resolve_tid(pid), sz, m); }

static int pth_tid(pthread_t th) {
  if (pthread_equal(th, pthread_self())) return g_k.self_tid();
  for (size_t i = 0; i < g_k.pths.size(); i++) if (pthread_equal(g_k.pths[i], th)) return g_k.tids[i];
  return -1;
}
// the pthread flavours return the error instead of setting errno
int __wrap_pthread_setaffinity_np(pthread_t th, size_t sz, const cpu_set_t *m) { int save = errno; long r = do_setaffinity(PSETAFF, pth_tid(th), sz, m); int e = errno; errno = save; return r ? e : 0; }
int __wrap_pthread_getaffinity_np(pthread_t th, size_t sz, cpu_set_t *m) { int save = errno; long r = do_getaffinity(PGETAFF, pth_tid(th), sz, m); int e = errno; errno = save; return r ? e : 0; }

int __wrap_sched_getcpu(void) {
  Call &c = begin(GETCPU); int tid = g_k.self_tid(); c.tidx = g_k.tid_index(tid);
  auto it = g_k.curcpu.find(tid); if (it == g_k.curcpu.end()) { g_k.redraw(tid); it = g_k.curcpu.find(tid); }
  c.ret = it->second; c.set.insert((unsigned)it->second);
  return it->second;
}

// syscall() is variadic: read exactly as many arguments as the intercepted number defines; anything else
// (gettid included) goes to the real syscall().  No ASan here: va_arg beyond what the caller passed would
// otherwise be reported against the wrapper itself.
__attribute__((no_sanitize("address", "undefined"))) long __wrap_syscall(long nr, ...) {
  long a[6] = {0, 0, 0, 0, 0, 0}; int n;
  switch (nr) {
    case SYS_set_mempolicy: n = 3; break;
    case SYS_get_mempolicy: n = 5; break;
    case SYS_mbind: n = 6; break;
    case SYS_migrate_pages: n = 4; break;
    case SYS_move_pages: n = 6; break;
    default: n = -1; break;
  }
  va_list ap; va_start(ap, nr);
  for (int i = 0; i < (n < 0 ? 6 : n); i++) a[i] = va_arg(ap, long);
  va_end(ap);
  switch (nr) {
    case SYS_set_mempolicy: return sys_set_mempolicy((int)a[0], (const unsigned long *)a[1], (unsigned long)a[2]);
    case SYS_get_mempolicy: return sys_get_mempolicy((int *)a[0], (unsigned long *)a[1], (unsigned long)a[2], (void *)a[3], (unsigned long)(unsigned)a[4]);
    case SYS_mbind: return sys_mbind((unsigned long)a[0], (unsigned long)a[1], (int)a[2], (const unsigned long *)a[3], (unsigned long)a[4], (unsigned long)(unsigned)a[5]);
    case SYS_migrate_pages: return sys_migrate_pages((int)a[0], (unsigned long)a[1], (const unsigned long *)a[2], (const unsigned long *)a[3]);
    case SYS_move_pages: return sys_move_pages((int)a[0], (unsigned long)a[1], (void **)a[2], (const int *)a[3], (int *)a[4], (int)a[5]);
    default: return __real_syscall(nr, a[0], a[1], a[2], a[3], a[4], a[5]);
  }
}

__attribute__((no_sanitize("address", "undefined"))) int __wrap_openat(int dirfd, const char *path, int flags, ...) {
  mode_t mode = 0;
  if (flags & (O_CREAT | O_TMPFILE)) { va_list ap; va_start(ap, flags); mode = (mode_t)va_arg(ap, int); va_end(ap); }
  bool handled = false;
  int fd = model_open(path, &handled);
  if (handled) return fd;
  return __real_openat(dirfd, path, flags, mode);
}

long __wrap_sysconf(int name) {
  if (g_k.files) {
    if (name == _SC_NPROCESSORS_CONF) return g_k.present.empty() ? 1 : (long)*g_k.present.rbegin() + 1;   // glibc: highest possible CPU + 1
    if (name == _SC_NPROCESSORS_ONLN) return (long)g_k.online.size();
  }
  return __real_sysconf(name);
}

}  // extern "C"
