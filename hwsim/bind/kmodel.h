// Kernel model for the binding machine (C10).  Linked under
//   -Wl,--wrap=sched_setaffinity,--wrap=sched_getaffinity,--wrap=sched_getcpu,--wrap=syscall,
//       --wrap=pthread_setaffinity_np,--wrap=pthread_getaffinity_np,--wrap=openat,--wrap=sysconf
// so that every affinity / memory-policy request hwloc's Linux hooks make lands here instead of in
// the kernel of the sandbox.  The real kernel is never asked about binding.
//
// Semantics follow sched_setaffinity(2), set_mempolicy(2), mbind(2), get_mempolicy(2), move_pages(2)
// and the kernel sources they document (kernel/sched/core.c, mm/mempolicy.c):
//   * sched_setaffinity: the user mask is cut to nr_cpu_ids bits and intersected with the cpuset
//     (cgroup) of the task; EINVAL if nothing online remains; ESRCH for an unknown tid.
//   * sched_getaffinity: EINVAL if cpusetsize*8 < nr_cpu_ids or cpusetsize is not a multiple of
//     sizeof(long); reports mask & online.
//   * set_mempolicy/mbind: maxnode counts one more than the bits read; EINVAL if a bit at or above
//     MAX_NUMNODES is set, if the mode is unknown to this kernel generation (MPOL_PREFERRED_MANY,
//     MPOL_WEIGHTED_INTERLEAVE on an old kernel), if MPOL_DEFAULT/MPOL_LOCAL come with nodes, if a
//     mode that needs nodes names none that exists.
//   * get_mempolicy: EINVAL if a mask is wanted and maxnode < nr_node_ids; MPOL_F_ADDR looks the
//     page up in the mbind table and falls back to the task policy.
// Every call is counted and recorded with decoded arguments (what reached the OS is observed, not
// inferred); thread ids are recorded as indices of first appearance, never as numbers.
#pragma once
#include <stdint.h>
#include <stddef.h>
#include <pthread.h>
#include <map>
#include <set>
#include <string>
#include <vector>

namespace kmodel {

typedef std::set<unsigned> Set;
std::string set_str(const Set &s);   // "0-3,7" / "-" when empty

enum Kind { SETAFF, GETAFF, PSETAFF, PGETAFF, GETCPU, SET_MEMPOLICY, GET_MEMPOLICY, MBIND, MIGRATE_PAGES, MOVE_PAGES, FILE_READ };
const char *kind_name(Kind k);

struct Call {
  Kind kind;
  int tidx = -1;            // target thread: index of first appearance (-1: not a thread call, -2: unknown tid)
  unsigned long size = 0;   // cpusetsize in bytes / maxnode as passed
  Set set;                  // decoded cpu mask / nodemask as the kernel would read it (migrate_pages: the new nodes)
  bool mask_null = false;   // nodemask pointer was NULL
  int mode = -1;            // mempolicy mode as passed
  unsigned long flags = 0;  // mbind / get_mempolicy flags
  unsigned long pages = 0;  // mbind / move_pages: number of pages
  long ret = 0; int err = 0;
  const char *refusal = nullptr;   // name of the refusal that fired, for fault accounting
  std::string file;         // FILE_READ: which model file
  std::string str() const;  // deterministic rendering for the event log
};

struct Policy { int mode = 0; Set nodes; bool operator==(const Policy &o) const { return mode == o.mode && nodes == o.nodes; } };

struct Kernel {
  // ---- process configuration (hwloc caches what it probes in statics, so these are per process class)
  unsigned nr_cpu_ids = 64;       // kernel cpumask size in bits
  unsigned nr_node_ids = 64;      // get_mempolicy refuses a smaller maxnode
  unsigned max_numnodes = 64;     // CONFIG_NODES_SHIFT: set_mempolicy refuses bits at or above
  bool new_mempolicy = true;      // kernel >= 5.15/6.9: MPOL_PREFERRED_MANY, MPOL_WEIGHTED_INTERLEAVE known, get reports MPOL_LOCAL
  bool sysfs_possible = true;     // /sys/devices/system/{cpu,node}/possible readable

  // ---- machine state (per run)
  Set online, allowed;            // CPUs online / allowed by the cgroup cpuset (both within [0, nr_cpu_ids))
  Set present;                    // CPUs the machine has (sysconf(_SC_NPROCESSORS_CONF) = highest present CPU + 1)
  Set nodes;                      // NUMA nodes that exist, have memory and are allowed
  std::map<int, Set> aff;         // per-tid affinity mask (absent: allowed)
  std::map<int, Policy> pol;      // per-tid memory policy (absent: MPOL_DEFAULT)
  std::map<int, int> curcpu;      // per-tid current CPU: a seeded member of its mask & online
  std::map<uintptr_t, Policy> pages;   // mbind table, by page address (never logged)
  uint64_t rng = 1;

  bool files = false;             // serve the model's /sys and /proc files and sysconf(); off = pass through

  // ---- observation
  uint64_t ncalls = 0;            // every intercepted call, for ever
  std::vector<Call> calls;        // since the last clear_calls()
  void clear_calls() { calls.clear(); }

  // ---- threads (real tids, logged as indices)
  std::vector<int> tids; std::vector<pthread_t> pths;
  void register_thread(pthread_t p, int tid);
  int tid_index(int tid) const;   // -2 if unknown
  int self_tid() const;

  void configure(int pclass);
  static int nclasses() { return 20; }
  std::string config_str() const;
  void reset_run(uint64_t seed);  // forget masks, policies, pages; rng from the seed
  // what sched_getaffinity would report for a tid
  Set observable_mask(int tid) const;
  Policy policy_of(int tid) const;
  void forget_range(const void *addr, size_t len);
  // hot (un)plug; a task whose mask loses its last online CPU falls back to its cpuset, as the kernel does
  void set_online(unsigned cpu, bool on);
  void redraw(int tid);
  unsigned long pick(unsigned long n);
};

Kernel &k();

}  // namespace kmodel
