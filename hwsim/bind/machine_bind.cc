// Binding machine (C10): hwloc's real bind.c and Linux binding hooks against a model kernel (kmodel.cc).
// A run = one topology (synthetic / corpus XML / x86 discovery on the model's CPUs) in one environment
// (foreign, thissystem by flag, thissystem by HWLOC_THISSYSTEM=1, native), the model kernel shaped after
// it, then a history of binding calls on it, on a dup'ed replica and on re-loaded replicas.
// Oracles: exactly clauses (1)-(6) of DESIGN.md section 4, C10.
#ifndef _GNU_SOURCE
#define _GNU_SOURCE
#endif
#include "../core/hwsim.h"
#include "kmodel.h"
// invalid policy values are part of the input space; hwloc's inline helpers (inlines.h) are compiled into this C++ unit, where
// UBSan's enum check would flag the mere passing-on of such a value (the C parts of hwloc have no such check)
#pragma clang attribute push(__attribute__((no_sanitize("enum"))), apply_to = function)
#include <hwloc.h>
#pragma clang attribute pop
#include <errno.h>
#include <unistd.h>
#include <pthread.h>
#include <semaphore.h>
#include <signal.h>
#include <sys/mman.h>
#include <sys/syscall.h>
#include <algorithm>

extern "C" long __real_syscall(long nr, ...);
extern "C" int __real_sched_getaffinity(pid_t, size_t, cpu_set_t *);
extern "C" int __real_sched_setaffinity(pid_t, size_t, const cpu_set_t *);
extern "C" int __real_sched_getcpu(void);
extern "C" long __real_sysconf(int);

using namespace hwsim;
using kmodel::Set;
using kmodel::Call;
using kmodel::Policy;

namespace {

kmodel::Kernel &K = kmodel::k();

const char *SYN[] = {
    "pu:1", "pu:2", "core:2 pu:2", "pack:2 numa:2 core:2 pu:2", "numa:3 core:2 pu:2", "pack:4 numa:2 l3:2 core:4 pu:2",
    "pack:2 core:2 pu:2(indexes=0,4,2,6,1,5,3,7)", "pack:2(indexes=3,5) numa:2(memory=256GiB indexes=pack) l2:2 core:1 pu:2(indexes=l2)",
    "numa:2(indexes=5,2) core:3 pu:1", "pack:3 core:11 pu:2", "numa:5 core:13 pu:1", "numa:2 pu:64", "pu:130",
    "pack:2 [numa(memory=1GB)] core:2 [numa(memory=512MB)] pu:2", "numa:8 pu:1", "numa:70 pu:1", "numa:64 pu:1", "numa:2 core:16 pu:2", "pack:2 numa:1 core:4 pu:1(indexes=1,3,5,7,9,11,13,15)",
};
const int NSYN = sizeof SYN / sizeof *SYN;
const char *XMLS[] = {
    "16-2gr2gr2n2c+misc.xml", "16amd64-4distances.xml", "16amd64-8n2c-cpusets.xml", "16em64t-4s2c2t-offlines.xml", "16em64t-4s2c2t.xml",
    "16intel64-manyVFs.xml", "192em64t-12gr2n8c2t.xml", "192em64t-24n8c2t.xml", "24em64t-2n6c2t-pci.xml", "32em64t-2n8c2t-pci-noio.xml",
    "32em64t-2n8c2t-pci-normalio.xml", "32em64t-2n8c2t-pci-wholeio.xml", "64intel64-fakeKNL-SNC4-hybrid.xml", "8intel64-4n2t-memattrs.xml",
    "96em64t-4n4d3ca2co-pci.xml", "cxlmem+dax.v2.xml", "cxlmem+dax.v3.xml", "fakecpukinds.xml", "fakeheterodistances.xml",
    "irregulargroups-disallowed.xml", "memorysidecaches.xml", "nvidiaDGX2.xml", "power8gpudistances.xml",
};
const int NXML = sizeof XMLS / sizeof *XMLS;

const int CPU_ALLFLAGS = 0xf, MEM_ALLFLAGS = 0x3f;
const unsigned NSETCLS = 12;
// classes: 0 subset, 1 empty, 2 outside, 3 infinite, 4 superset, 5 exact, 6 single, 7 complete, 8 mixed (with disallowed PUs), 9 subset of allowed&online, 10 full

// ---------------------------------------------------------------- set helpers
Set toset(hwloc_const_bitmap_t b, bool *inf = nullptr) {
  Set s; if (inf) *inf = false;
  if (!b) return s;
  if (hwloc_bitmap_weight(b) < 0) {   // infinite: keep the finite part below the last hole
    if (inf) *inf = true;
    int lu = hwloc_bitmap_last_unset(b);
    for (int i = hwloc_bitmap_first(b); i >= 0 && i <= lu; i = hwloc_bitmap_next(b, i)) s.insert((unsigned)i);
    return s;
  }
  for (int i = hwloc_bitmap_first(b); i >= 0; i = hwloc_bitmap_next(b, i)) s.insert((unsigned)i);
  return s;
}
bool incl(const Set &big, const Set &small) { return std::includes(big.begin(), big.end(), small.begin(), small.end()); }
bool meets(const Set &a, const Set &b) { for (unsigned x : a) if (b.count(x)) return true; return false; }
Set inter(const Set &a, const Set &b) { Set o; for (unsigned x : a) if (b.count(x)) o.insert(x); return o; }
Set minus(const Set &a, const Set &b) { Set o; for (unsigned x : a) if (!b.count(x)) o.insert(x); return o; }
unsigned nth(const Set &s, uint64_t i) { auto it = s.begin(); std::advance(it, i % s.size()); return *it; }
std::string sstr(const Set &s) { return kmodel::set_str(s); }
uint64_t set_hash(const Set &s) { Fnv f; for (unsigned x : s) f.u64(x); return f.h; }

const char *ename(int e) {
  switch (e) { case 0: return "0"; case EINVAL: return "EINVAL"; case ENOSYS: return "ENOSYS"; case EXDEV: return "EXDEV"; case ESRCH: return "ESRCH";
    case EPERM: return "EPERM"; case ENOMEM: return "ENOMEM"; case EFAULT: return "EFAULT"; case EAGAIN: return "EAGAIN"; case ENOENT: return "ENOENT"; case EIO: return "EIO"; }
  static char b[16]; snprintf(b, sizeof b, "E%d", e); return b;
}

struct Node { unsigned os; Set cpus; };

struct Rep {
  hwloc_topology_t t = nullptr; bool thissystem = false; std::string how;
  Set complete, topo, ncomplete, ntopo; std::vector<Node> numa;
  struct hwloc_topology_cpubind_support cs; struct hwloc_topology_membind_support ms;
  Set conv(const Set &cpus) const { Set n; for (auto &nd : numa) if (meets(nd.cpus, cpus)) n.insert(nd.os); return n; }       // hwloc_cpuset_to_nodeset
  Set conv_back(const Set &ns) const { Set c; for (auto &nd : numa) if (ns.count(nd.os)) c.insert(nd.cpus.begin(), nd.cpus.end()); return c; }   // hwloc_cpuset_from_nodeset
};

static unsigned long g_allowed_narrower = 0;
struct GenSet {
  Set s; bool infinite = false; unsigned inf_from = 0; hwloc_bitmap_t bm = nullptr;
  std::string str() const { std::string o = s.empty() && infinite ? "" : sstr(s); if (infinite) o += (o.empty() ? "" : ",") + std::to_string(inf_from) + "-"; return o; }
};

struct Buf { void *p; size_t len; int slot; };

struct Helper { pthread_t th; sem_t ready; volatile int tid = 0; } g_helper;
void *helper_main(void *) {
  sigset_t all; sigfillset(&all); pthread_sigmask(SIG_BLOCK, &all, nullptr);
  g_helper.tid = (int)__real_syscall(SYS_gettid);
  sem_post(&g_helper.ready);
  for (;;) pause();
  return nullptr;
}

enum EP { SET_CPUBIND, GET_CPUBIND, SET_PROC_CPUBIND, GET_PROC_CPUBIND, SET_THREAD_CPUBIND, GET_THREAD_CPUBIND, GET_LAST_CPU, GET_PROC_LAST_CPU,
          SET_MEMBIND, GET_MEMBIND, SET_PROC_MEMBIND, GET_PROC_MEMBIND, SET_AREA_MEMBIND, GET_AREA_MEMBIND, GET_AREA_MEMLOCATION, ALLOC_MEMBIND, ALLOC_MEMBIND_POLICY, NEP };
const char *EPN[NEP] = {"set_cpubind", "get_cpubind", "set_proc_cpubind", "get_proc_cpubind", "set_thread_cpubind", "get_thread_cpubind", "get_last_cpu_location", "get_proc_last_cpu_location",
                        "set_membind", "get_membind", "set_proc_membind", "get_proc_membind", "set_area_membind", "get_area_membind", "get_area_memlocation", "alloc_membind", "alloc_membind_policy"};
int ep_of(const std::string &k) { for (int i = 0; i < NEP; i++) if (k == EPN[i]) return i; return -1; }
bool ep_takes_set(int ep) { return ep == SET_CPUBIND || ep == SET_PROC_CPUBIND || ep == SET_THREAD_CPUBIND || ep == SET_MEMBIND || ep == SET_PROC_MEMBIND || ep == SET_AREA_MEMBIND || ep == ALLOC_MEMBIND || ep == ALLOC_MEMBIND_POLICY; }

int gen_cpu_flags(Rng &g) {
  static const int valid[] = {0, 1, 2, 2, 2, 4, 1 | 4, 2 | 4, 8, 2 | 8, 1 | 2, 0xf, 2 | 4 | 8};
  int f = valid[g.below(sizeof valid / sizeof *valid)];
  if (g.chance(1, 6)) { switch (g.below(4)) { case 0: f |= 1 << (4 + g.below(28)); break; case 1: f |= 0x10; break; case 2: f = -1; break; default: f |= (int)0x80000000u; } }
  return f;
}
int gen_mem_flags(Rng &g) {
  int f = 0;
  switch (g.below(6)) { case 0: break; case 1: f = 1; break; case 2: f = 1 | 2; break; default: f = 2; }
  if (g.chance(1, 2)) f |= 4;
  if (g.chance(1, 6)) f |= 8;
  if (g.chance(1, 6)) f |= 16;
  if (g.chance(3, 5)) f |= 32;
  if (g.chance(1, 7)) { switch (g.below(3)) { case 0: f |= 1 << (6 + g.below(26)); break; case 1: f |= 0x40; break; default: f |= (int)0x80000000u; } }
  return f;
}
int gen_policy(Rng &g) {
  if (g.chance(1, 8)) { static const int bad[] = {-1, 6, 7, 77, 0x7fffffff, -2, (int)0x80000000u}; return bad[g.below(sizeof bad / sizeof *bad)]; }
  static const int ok[] = {0, 1, 2, 2, 2, 3, 3, 4, 5};
  return ok[g.below(sizeof ok / sizeof *ok)];
}

struct BindMachine : Machine {
  const char *name() override { return "bind"; }
  int nclasses(const std::string &) override { return kmodel::Kernel::nclasses(); }
  int pclass = 0; bool warmed = false;
  std::string repo;

  void proc_setup(int pc, const Plan *) override {
    pclass = pc; K.configure(pc);
    repo = getenv("HWSIM_REPO") ? getenv("HWSIM_REPO") : "/repo";
    K.register_thread(pthread_self(), (int)__real_syscall(SYS_gettid));
    sem_init(&g_helper.ready, 0, 0);
    if (pthread_create(&g_helper.th, nullptr, helper_main, nullptr)) { perror("pthread_create"); _exit(2); }
    sem_wait(&g_helper.ready);
    K.register_thread(g_helper.th, g_helper.tid);
  }

  // ------------------------------------------------------------------ plan generation
  Plan gen(uint64_t seed, const std::string &prop, const std::string &tier, int pc) override {
    Plan p; p.machine = "bind"; p.prop = prop; p.tier = tier; p.seed = seed;
    p.seth("proc", "class=" + std::to_string(pc));
    Rng root(seed); Rng cfg = root.sub(1), ops = root.sub(2);
    // source and environment
    int sk = (int)cfg.below(100); std::string src, env;
    // x86-only discovery needs distinct APIC ids; the model kernel cannot move the thread to another real CPU, so such a load
    // succeeds on a 1-CPU model only (on larger ones it binds to every PU, restores, and then fails: judged by clause (6), no ops follow)
    if (sk < 54) src = "kind=syn name=" + enc(SYN[cfg.below(NSYN)]);
    else if (sk < 95) src = std::string("kind=xml name=") + enc(XMLS[cfg.below(NXML)]);
    else src = "kind=x86 ncpu=" + std::to_string(cfg.chance(3, 5) ? 1 : 1 + cfg.below(cfg.chance(1, 4) ? 70 : 12));
    if (sk >= 95) env = "mode=native";
    else { int e = (int)cfg.below(100); env = e < 22 ? "mode=foreign" : e < 65 ? "mode=flag" : "mode=envvar"; }
    p.seth("src", src); p.seth("env", env);
    char b[160]; snprintf(b, sizeof b, "seed=%llu noff=%d ndis=%d nodeoff=%d init=%d", (unsigned long long)(cfg.next() >> 1), cfg.chance(2, 5) ? (int)cfg.range(1, 2) : 0,
                          cfg.chance(1, 3) ? (int)cfg.range(1, 2) : 0, cfg.chance(1, 4) ? 1 : 0, cfg.chance(1, 3) ? 1 : 0);
    p.seth("shape", b);
    // swarm: each group is switched off in a third of the runs
    struct G { const char *n; int w; };
    std::vector<G> gs = {{"cpuset", 8}, {"cpuget", 4}, {"proc", 4}, {"thread", 3}, {"roundtrip", 4}, {"memset", 8}, {"memget", 3}, {"procmem", 2}, {"area", 5}, {"alloc", 4},
                         {"dup", 1}, {"reload", 2}, {"hotplug", 1}, {"native", 0}};
    int total = 0; std::string sw;
    for (auto &x : gs) { if (cfg.chance(1, 3)) x.w = 0; else x.w = std::max(1, x.w - 1 + (int)cfg.below(3)); if (!strcmp(x.n, "native")) x.w = cfg.chance(1, 30) ? 1 : 0; total += x.w; if (x.w) sw += std::string(x.n) + ":" + std::to_string(x.w) + " "; }
    if (!total) { gs[0].w = gs[5].w = 1; total = 2; sw = "cpuset:1 memset:1 "; }
    p.seth("cfg", "weights " + sw);
    int len = (int)cfg.range(6, tier == "thorough" ? 80 : 44);
    for (int s = 0; s < len; s++) {
      int rr = (int)ops.below(total); std::string gn; for (auto &x : gs) { if (rr < x.w) { gn = x.n; break; } rr -= x.w; }
      Op o; uint64_t r = ops.below(3), cls = ops.below(NSETCLS), ss = ops.next() >> 1;
      if (gn == "cpuset") { o = Op("set_cpubind"); o.set("r", r).set("cls", cls).setu("ss", ss).setu("fl", (uint32_t)gen_cpu_flags(ops)); }
      else if (gn == "cpuget") { o = Op(ops.chance(1, 2) ? "get_cpubind" : "get_last_cpu_location"); o.set("r", r).setu("fl", (uint32_t)gen_cpu_flags(ops)); }
      else if (gn == "proc") { int k = (int)ops.below(3); o = Op(k == 0 ? "set_proc_cpubind" : k == 1 ? "get_proc_cpubind" : "get_proc_last_cpu_location"); o.set("r", r).set("who", ops.below(2)); if (k == 0) o.set("cls", cls).setu("ss", ss); o.setu("fl", (uint32_t)gen_cpu_flags(ops)); }
      else if (gn == "thread") { int k = (int)ops.below(2); o = Op(k == 0 ? "set_thread_cpubind" : "get_thread_cpubind"); o.set("r", r).set("who", ops.below(2)); if (k == 0) o.set("cls", cls).setu("ss", ss); o.setu("fl", (uint32_t)gen_cpu_flags(ops)); }
      else if (gn == "roundtrip") { o = Op("roundtrip"); o.set("r", r).setu("ss", ss).set("strict", ops.below(2)); }
      else if (gn == "memset") { o = Op("set_membind"); o.set("r", r).set("cls", cls).setu("ss", ss).set("pol", gen_policy(ops)).setu("fl", (uint32_t)gen_mem_flags(ops)); }
      else if (gn == "memget") { o = Op("get_membind"); o.set("r", r).setu("fl", (uint32_t)gen_mem_flags(ops)); }
      else if (gn == "procmem") { int k = (int)ops.below(2); o = Op(k == 0 ? "set_proc_membind" : "get_proc_membind"); o.set("r", r).set("who", ops.below(2)); if (k == 0) o.set("cls", cls).setu("ss", ss).set("pol", gen_policy(ops)); o.setu("fl", (uint32_t)gen_mem_flags(ops)); }
      else if (gn == "area") {
        int k = (int)ops.below(3); o = Op(k == 0 ? "set_area_membind" : k == 1 ? "get_area_membind" : "get_area_memlocation");
        o.set("r", r).set("buf", ops.below(4)).set("off", ops.chance(1, 2) ? 0 : (int64_t)ops.below(3 * 4096)).set("len", ops.chance(1, 10) ? 0 : 1 + (int64_t)ops.below(5 * 4096));
        if (k == 0) o.set("cls", cls).setu("ss", ss).set("pol", gen_policy(ops)); o.setu("fl", (uint32_t)gen_mem_flags(ops));
      } else if (gn == "alloc") {
        int k = (int)ops.below(5);
        if (k == 0) { o = Op("free"); o.set("buf", ops.below(4)); }
        else if (k == 1) { o = Op("alloc"); o.set("r", r).set("pages", 1 + ops.below(6)); }
        else { o = Op(k == 2 ? "alloc_membind_policy" : "alloc_membind"); o.set("r", r).set("pages", 1 + ops.below(6)).set("cls", cls).setu("ss", ss).set("pol", gen_policy(ops)).setu("fl", (uint32_t)gen_mem_flags(ops)); }
      } else if (gn == "dup") { o = Op("dup"); o.set("r", r); }
      else if (gn == "reload") { if (ops.chance(1, 3)) { o = Op("allow"); o.set("r", r).setu("ss", ss); } else { o = Op("reload"); o.set("how", ops.below(4)).setu("tf", ops.below(16)).set("keep", ops.below(2)); } }
      else if (gn == "hotplug") { o = Op("hotplug"); o.set("cpu", ops.below(256)).set("on", ops.below(3) == 0); }
      else { o = Op("load_native"); o.set("x86", ops.below(3) ? 1 : 0).set("off", ops.chance(1, 2) ? (int64_t)ops.below(64) : 0).setu("ms", ops.next() >> 1); }
      p.ops.push_back(o);
    }
    return p;
  }

  // ------------------------------------------------------------------ world
  Rep reps[3]; std::vector<Buf> bufs; void *static_buf = nullptr; const size_t STATIC_LEN = 8 * 4096;
  std::string src_kind, src_name; int src_ncpu = 0;

  std::vector<int> live() const { std::vector<int> v; for (int i = 0; i < 3; i++) if (reps[i].t) v.push_back(i); return v; }
  Rep &pick_rep(const Op &o) { auto v = live(); return reps[v[o.u("r") % v.size()]]; }
  int slot_of(const Rep &R) const { return (int)(&R - reps); }

  void describe(Rep &R) {
    hwloc_topology_t t = R.t;
    R.thissystem = hwloc_topology_is_thissystem(t) != 0;
    R.complete = toset(hwloc_topology_get_complete_cpuset(t)); R.topo = toset(hwloc_topology_get_topology_cpuset(t));
    R.ncomplete = toset(hwloc_topology_get_complete_nodeset(t)); R.ntopo = toset(hwloc_topology_get_topology_nodeset(t));
    R.numa.clear();
    for (hwloc_obj_t n = hwloc_get_next_obj_by_type(t, HWLOC_OBJ_NUMANODE, nullptr); n; n = hwloc_get_next_obj_by_type(t, HWLOC_OBJ_NUMANODE, n)) R.numa.push_back({n->os_index, toset(n->cpuset)});
    const struct hwloc_topology_support *s = hwloc_topology_get_support(t);
    R.cs = *s->cpubind; R.ms = *s->membind;
  }

  void free_buf(size_t i) {
    Buf b = bufs[i]; bufs.erase(bufs.begin() + i);
    K.forget_range(b.p, b.len);
    hwloc_free(reps[b.slot].t, b.p, b.len);
  }
  void drop_rep(int slot) {
    if (!reps[slot].t) return;
    for (size_t i = bufs.size(); i-- > 0;) if (bufs[i].slot == slot) free_buf(i);
    hwloc_topology_destroy(reps[slot].t); reps[slot] = Rep();
  }

  // load a topology; how: 0 foreign, 1 IS_THISSYSTEM flag, 2 HWLOC_THISSYSTEM=1, 3 x86 discovery on the model's CPUs,
  // 4 native linux, 5 native linux,x86
  uint64_t failfirst = 0; unsigned nloads = 0;   // set per run from the plan seed
  int load_topo(hwloc_topology_t *tp, int how, unsigned long tflags) {
    hwloc_topology_t t; *tp = nullptr;
    if (hwloc_topology_init(&t)) return -1;
    int rc = 0;
    // one load in four is preceded by a load that fails on the same handle (an XML buffer with an object of unknown type): what the failed attempt
    // decided (backend, "is this system") must not survive into the load that follows - the binding clauses below are judged on its result
    if ((failfirst >> (nloads++ % 32) * 2 & 3) == 3) {
      static const char bad[] = "<?xml version=\"1.0\" encoding=\"UTF-8\"?>\n<topology version=\"3.0\">\n <object type=\"Machine\" os_index=\"0\" cpuset=\"0x1\" complete_cpuset=\"0x1\" nodeset=\"0x1\" complete_nodeset=\"0x1\" gp_index=\"1\">\n  <object type=\"Bogus\" os_index=\"0\" cpuset=\"0x1\" complete_cpuset=\"0x1\" nodeset=\"0x1\" complete_nodeset=\"0x1\" gp_index=\"2\"/>\n </object>\n</topology>\n";
      int fa = hwloc_topology_set_xmlbuffer(t, bad, (int)sizeof bad); int fb = fa ? -1 : hwloc_topology_load(t);
      if (fb == 0) { hwloc_topology_destroy(t); if (hwloc_topology_init(&t)) return -1; }   // (not expected) the document loaded: start over with a fresh handle
    }
    if (how <= 2) {
      if (src_kind == "syn") rc = hwloc_topology_set_synthetic(t, src_name.c_str());
      else rc = hwloc_topology_set_xml(t, (repo + "/tests/hwloc/xml/" + src_name).c_str());
    }
    if (rc) { hwloc_topology_destroy(t); return -2; }
    if (how == 1 || (tflags & (HWLOC_TOPOLOGY_FLAG_RESTRICT_TO_CPUBINDING | HWLOC_TOPOLOGY_FLAG_RESTRICT_TO_MEMBINDING))) tflags |= HWLOC_TOPOLOGY_FLAG_IS_THISSYSTEM;   // set_flags() refuses RESTRICT_TO_* without it
    if (how == 2) setenv("HWLOC_THISSYSTEM", "1", 1);
    if (how == 3) setenv("HWLOC_COMPONENTS", "x86,stop", 1);
    if (how == 4) setenv("HWLOC_COMPONENTS", "linux,stop", 1);
    if (how == 5) setenv("HWLOC_COMPONENTS", "linux,x86,stop", 1);
    if (hwloc_topology_set_flags(t, tflags)) rc = -3;
    if (!rc) rc = hwloc_topology_load(t) ? -4 : 0;
    unsetenv("HWLOC_THISSYSTEM"); unsetenv("HWLOC_COMPONENTS");
    if (rc) { hwloc_topology_destroy(t); return rc; }
    *tp = t; return 0;
  }

  // the real cpuid instruction is executed by the x86 back-end: keep the thread on the real CPU it is on for the duration
  struct RealPin {
    cpu_set_t old; bool ok = false;
    RealPin() { if (!__real_sched_getaffinity(0, sizeof old, &old)) { int c = __real_sched_getcpu(); if (c >= 0 && c < CPU_SETSIZE) { cpu_set_t one; CPU_ZERO(&one); CPU_SET(c, &one); ok = !__real_sched_setaffinity(0, sizeof one, &one); } } }
    ~RealPin() { if (ok) __real_sched_setaffinity(0, sizeof old, &old); }
  };

  Set A() const { return inter(K.online, K.allowed); }

  // kernel model shaped after a topology: model CPUs = PUs of the complete cpuset (below nr_cpu_ids); PUs that are in the
  // complete set but not in the topology set are offline or disallowed, as they would be on the machine the topology
  // describes; the plan takes a few more CPUs (and a node) away
  void shape_after(const Rep &R, const Plan &p) {
    Rng g(p.hki("shape", "seed", 1));
    K.present.clear(); for (unsigned c : R.complete) if (c < K.nr_cpu_ids) K.present.insert(c);
    if (K.present.empty()) K.present.insert(0);
    K.online = K.allowed = K.present;
    for (unsigned c : minus(R.complete, R.topo)) { if (g.chance(1, 2)) K.online.erase(c); else K.allowed.erase(c); }
    take_away(g, inter(R.topo, K.present), (int)p.hki("shape", "noff"), (int)p.hki("shape", "ndis"));
    shape_nodes(R, g, (int)p.hki("shape", "nodeoff"));
    K.aff.clear(); K.curcpu.clear();
    if (p.hki("shape", "init")) { Set a = A(), m; for (unsigned c : a) if (g.chance(1, 2)) m.insert(c); if (m.empty()) m.insert(nth(a, g.next())); K.aff[K.tids[0]] = m; }
    for (int t : K.tids) K.redraw(t);
  }
  void take_away(Rng &g, const Set &cand, int noff, int ndis) {
    for (int i = 0; i < noff && !cand.empty(); i++) { unsigned c = nth(cand, g.next()); K.online.erase(c); if (A().empty()) K.online.insert(c); }
    for (int i = 0; i < ndis && !cand.empty(); i++) { unsigned c = nth(cand, g.next()); K.allowed.erase(c); if (A().empty()) K.allowed.insert(c); }
    if (A().empty()) { unsigned c = *K.present.begin(); K.online.insert(c); K.allowed.insert(c); }
  }
  void shape_nodes(const Rep &R, Rng &g, int nodeoff) {
    K.nodes.clear(); for (unsigned n : R.ntopo) if (n < K.nr_node_ids) K.nodes.insert(n);
    if (nodeoff && K.nodes.size() > 1) K.nodes.erase(nth(K.nodes, g.next()));
    if (K.nodes.empty()) K.nodes.insert(0);
  }
  void shape_x86(int ncpu, const Plan &p) {
    Rng g(p.hki("shape", "seed", 1));
    K.present.clear(); for (unsigned c = 0; c < (unsigned)ncpu && c < K.nr_cpu_ids; c++) K.present.insert(c);
    K.online = K.allowed = K.present;
    take_away(g, K.present, (int)p.hki("shape", "noff"), (int)p.hki("shape", "ndis"));
    K.nodes.clear(); K.nodes.insert(0);
    K.aff.clear(); K.curcpu.clear();
    if (p.hki("shape", "init")) { Set a = A(), m; for (unsigned c : a) if (g.chance(1, 2)) m.insert(c); if (m.empty()) m.insert(nth(a, g.next())); K.aff[K.tids[0]] = m; }
    for (int t : K.tids) K.redraw(t);
  }

  // ------------------------------------------------------------------ argument sets: a pure function of (topology, class, seed)
  GenSet make_set(const Rep &R, bool node, unsigned cls, uint64_t seed) {
    const Set &U = node ? R.ncomplete : R.complete; const Set &T = node ? R.ntopo : R.topo;
    Rng g(seed); GenSet o;
    unsigned den = 2 + (unsigned)g.below(3), num = 1 + (unsigned)g.below(den - 1);
    auto subset = [&](const Set &from, bool nonempty) { Set s; for (unsigned x : from) if (g.chance(num, den)) s.insert(x); if (!from.empty() && g.chance(1, 3)) s.insert(*from.rbegin());   /* word boundaries: the highest index is the interesting one */ if (nonempty && s.empty() && !from.empty()) s.insert(nth(from, g.next())); return s; };
    unsigned last = U.empty() ? 0 : *U.rbegin();
    switch (cls % NSETCLS) {
      case 0: o.s = subset(T, true); if (o.s == T && T.size() > 1) o.s.erase(nth(o.s, g.next())); break;
      case 1: break;
      case 2: {
        o.s = subset(U, false); std::vector<unsigned> out;
        for (unsigned x = 0; x < last; x++) if (!U.count(x)) { out.push_back(x); if (out.size() > 8) break; }
        out.push_back(last + 1); out.push_back(last + 1 + (unsigned)g.below(70)); out.push_back(((last + 64) & ~63u) + (unsigned)g.below(2));
        o.s.insert(out[g.below(out.size())]); break;
      }
      case 3: o.s = subset(U, false); o.infinite = true; o.inf_from = g.chance(1, 2) ? last + 1 + (unsigned)g.below(3) : (unsigned)g.below(last + 2); { Set f; for (unsigned x : o.s) if (x < o.inf_from) f.insert(x); o.s = f; } break;
      case 4: o.s = T; { Set e = subset(minus(U, T), false); o.s.insert(e.begin(), e.end()); } break;
      case 5: o.s = T; break;
      case 6: if (!T.empty()) o.s.insert(nth(T, g.next())); break;
      case 7: o.s = U; break;
      case 8: o.s = subset(U, true); { Set e = minus(U, T); if (!e.empty()) o.s.insert(nth(e, g.next())); } break;
      case 9: { Set base = node ? inter(K.nodes, T) : inter(A(), T); if (base.empty()) base = T; o.s = subset(base, true); break; }
      case 10: o.infinite = true; o.inf_from = 0; break;
      default: {   // what hwloc itself reports as allowed (narrower than the topology under INCLUDE_DISALLOWED): a legal set that does not cover the topology
        hwloc_const_bitmap_t al = node ? hwloc_topology_get_allowed_nodeset(R.t) : hwloc_topology_get_allowed_cpuset(R.t);
        for (int x = hwloc_bitmap_first(al); x >= 0; x = hwloc_bitmap_next(al, x)) o.s.insert((unsigned)x);
        if (o.s != T && !o.s.empty()) g_allowed_narrower++;
        if (g.chance(1, 3)) { Set e = subset(minus(T, o.s), false); if (e != minus(T, o.s)) o.s.insert(e.begin(), e.end()); }   // ... or a proper superset of it inside the topology
        break; }
    }
    o.bm = hwloc_bitmap_alloc();
    for (unsigned x : o.s) hwloc_bitmap_set(o.bm, x);
    if (o.infinite) hwloc_bitmap_set_range(o.bm, o.inf_from, -1);
    return o;
  }

  std::string calls_str(const std::vector<Call> &cs) {
    std::vector<std::string> v; for (auto &c : cs) v.push_back(c.str());
    std::string o; size_t n = 0;
    for (auto &s : v) { if (n++ >= 24) { o += " ; ... " + std::to_string(v.size() - 24) + " more"; break; } o += (o.empty() ? "" : " ; ") + s; }
    return o.empty() ? "none" : o;
  }
  void account(Run &r, const std::vector<Call> &cs) {
    r.count("kernel_model_calls", cs.size());
    for (auto &c : cs) if (c.refusal && c.kind != kmodel::FILE_READ) { r.count(std::string("fault.") + c.refusal); if (!strcmp(c.refusal, "setaffinity_offline_cpu")) r.count("probe.offline_cpu_refused"); }
  }

  // ------------------------------------------------------------------ process warm-up (not logged)
  // hwloc caches in function-local statics what it probes from the kernel the first time: the cpumask size (sizing retry
  // loop), MAX_NUMNODES (idem with get_mempolicy) and whether MPOL_PREFERRED_MANY exists (two statics).  To keep every run a
  // pure function of (plan, process class), the first run of a process goes through these probes on a fixed topology
  // before its own plan starts, with the oracles of clauses (2) and (5) applied; nothing of it enters the event log.
  void warmup(Run &r) {
    if (warmed) return; warmed = true;
    r.curop = "warmup";
    K.reset_run(0x5eed0000 + pclass); K.files = true;
    src_kind = "syn"; src_name = (pclass / 5) % 2 ? "numa:2 pu:35" : "numa:2 pu:2";
    hwloc_topology_t t;
    if (load_topo(&t, 1, 0)) r.fail0("bind.warmup", "warm-up topology did not load");
    Rep R; R.t = t; describe(R);
    struct D { hwloc_topology_t t; ~D() { hwloc_topology_destroy(t); } } d{t};
    K.present.clear(); for (unsigned c : R.complete) if (c < K.nr_cpu_ids) K.present.insert(c);
    K.online = K.allowed = K.present; K.nodes = R.ntopo;
    Set S; for (unsigned c : A()) { S.insert(c); if (S.size() == 2) break; }
    if (S == R.topo) S.erase(*S.rbegin());
    hwloc_bitmap_t b = hwloc_bitmap_alloc(), g = hwloc_bitmap_alloc(); for (unsigned c : S) hwloc_bitmap_set(b, c);
    struct F { hwloc_bitmap_t a, b; ~F() { hwloc_bitmap_free(a); hwloc_bitmap_free(b); } } f{b, g};
    // (5) with the kernel cpumask sizing in the way
    K.clear_calls();
    if (hwloc_set_cpubind(t, b, HWLOC_CPUBIND_THREAD)) r.fail0("bind.roundtrip", "first bind of the process: set_cpubind(THREAD, {%s}) failed, errno %s [%s]", sstr(S).c_str(), ename(errno), K.config_str().c_str());
    K.clear_calls(); errno = 0;
    int rc = hwloc_get_cpubind(t, g, HWLOC_CPUBIND_THREAD); int e = errno; std::vector<Call> cs = K.calls;
    unsigned retries = 0; for (auto &c : cs) if (c.kind == kmodel::GETAFF && c.ret < 0) retries++;
    if (retries) r.count("probe.kernel_size_retry", retries);
    account(r, cs);
    if (rc || toset(g) != S) r.fail0("bind.roundtrip", "first get_cpubind of the process (kernel cpumask of %u bits, %u sizing retries): rc=%d errno=%s got {%s}, bound to {%s}; kernel saw: %s", K.nr_cpu_ids, retries, rc, ename(e), sstr(toset(g)).c_str(), sstr(S).c_str(), calls_str(cs).c_str());
    hwloc_bitmap_zero(g);
    if (hwloc_get_last_cpu_location(t, g, HWLOC_CPUBIND_THREAD) || toset(g).empty() || !incl(S, toset(g))) r.fail0("bind.roundtrip", "first get_last_cpu_location: {%s} not inside the binding {%s}", sstr(toset(g)).c_str(), sstr(S).c_str());
    // (2) MPOL_PREFERRED_MANY probing, thread policy and area policy
    hwloc_bitmap_zero(b); unsigned n0 = *R.ntopo.begin(); hwloc_bitmap_set(b, n0); Set N; N.insert(n0);
    for (int pass = 0; pass < 2; pass++) {
      K.clear_calls(); errno = 0;
      rc = pass == 0 ? hwloc_set_membind(t, b, HWLOC_MEMBIND_BIND, HWLOC_MEMBIND_THREAD | HWLOC_MEMBIND_BYNODESET)
                     : hwloc_set_area_membind(t, ensure_static(), 4096, b, HWLOC_MEMBIND_BIND, HWLOC_MEMBIND_BYNODESET);
      e = errno; cs = K.calls; account(r, cs);
      const char *what = pass == 0 ? "set_membind" : "set_area_membind";
      check_preferred_many(r, what, cs, N, true);
      if (rc) r.fail0("bind.membind_mask", "first non-strict %s(BIND, {%u}) of the process failed: errno %s; kernel saw: %s", what, n0, ename(e), calls_str(cs).c_str());
    }
    K.clear_calls(); hwloc_membind_policy_t pol;
    rc = hwloc_get_membind(t, g, &pol, HWLOC_MEMBIND_THREAD | HWLOC_MEMBIND_BYNODESET); cs = K.calls; account(r, cs);
    retries = 0; for (auto &c : cs) if (c.kind == kmodel::GET_MEMPOLICY && c.ret < 0) retries++;
    if (retries) r.count("probe.maxnode_retry", retries);
    r.count("warmups");
    K.forget_range(static_buf, STATIC_LEN);
    r.curop = "";
  }
  void *ensure_static() {
    if (!static_buf) { static_buf = mmap(nullptr, STATIC_LEN, PROT_READ | PROT_WRITE, MAP_PRIVATE | MAP_ANONYMOUS, -1, 0); if (static_buf == MAP_FAILED) { perror("mmap"); _exit(2); } }
    return static_buf;
  }

  // non-strict BIND: MPOL_PREFERRED_MANY, and if this kernel refuses it, exactly once more MPOL_PREFERRED with the same mask
  void check_preferred_many(Run &r, const char *what, const std::vector<Call> &cs, const Set &N, bool first) {
    std::vector<const Call *> pc; for (auto &c : cs) if (c.kind == kmodel::SET_MEMPOLICY || c.kind == kmodel::MBIND) pc.push_back(&c);
    if (pc.empty()) r.fail0("bind.membind_mask", "%s(BIND, non-strict, {%s}): no policy call reached the kernel model", what, sstr(N).c_str());
    for (auto c : pc) {
      if (c->set != N) r.fail0("bind.membind_mask", "%s(BIND, non-strict): kernel received nodemask {%s}, fixed nodeset is {%s} (%s)", what, sstr(c->set).c_str(), sstr(N).c_str(), c->str().c_str());
      if ((c->mode & 0xffff) != 5 && (c->mode & 0xffff) != 1) r.fail0("bind.membind_mask", "%s(BIND, non-strict) reached the kernel as mode %d, neither MPOL_PREFERRED_MANY nor MPOL_PREFERRED", what, c->mode);
    }
    if (pc.size() > 2) r.fail0("bind.membind_mask", "%s(BIND, non-strict): %zu policy calls: %s", what, pc.size(), calls_str(cs).c_str());
    bool refused_pm = pc[0]->mode == 5 && pc[0]->ret < 0 && pc[0]->refusal && !strcmp(pc[0]->refusal, "mempolicy_preferred_many_unsupported");
    if (refused_pm) {
      r.count("probe.preferred_many_fallback");
      if (pc.size() != 2 || pc[1]->mode != 1) r.fail0("bind.membind_mask", "%s(BIND, non-strict): MPOL_PREFERRED_MANY refused by the kernel but not retried exactly once as MPOL_PREFERRED: %s", what, calls_str(cs).c_str());
    } else if (pc.size() == 2) r.fail0("bind.membind_mask", "%s(BIND, non-strict): two policy calls without an MPOL_PREFERRED_MANY refusal: %s", what, calls_str(cs).c_str());
    (void)first;
  }

  // ------------------------------------------------------------------ common verdict pieces
  const char *envname(const Rep &R) const { int s = slot_of(R); return !R.thissystem ? (s == 1 ? "foreign-dup" : "foreign") : s == 1 ? "thissystem-dup" : s == 2 ? "thissystem-reload" : "thissystem"; }
  std::string setclass(const GenSet &g, const Set &U, const Set &T) const {
    if (g.infinite) return "infinite"; if (g.s.empty()) return "empty"; if (!incl(U, g.s)) return "outside";
    if (g.s == T) return "exact"; if (incl(g.s, T)) return "covers"; if (!incl(T, g.s)) return "with-disallowed"; return "subset";
  }
  void state(Run &r, int ep, const Rep &R, const std::string &argclass, int flags, int allflags, int pol, long rc, int e) {
    Fnv f; f.str(EPN[ep]); f.str(envname(R)); f.str(argclass); f.u64((uint64_t)(flags & allflags)); f.u64((flags & ~allflags) ? 1 : 0);
    f.u64((uint64_t)(int64_t)(pol < -1 || pol > 6 ? 99 : pol)); f.u64((uint64_t)rc); f.u64((uint64_t)e); f.u64((uint64_t)pclass);
    r.distinct("state", f.h);
  }
  void expect_einval(Run &r, const char *ep, const std::string &args, long rc, int e, uint64_t before, const std::vector<Call> &cs, const char *why) {
    if (rc != -1 || e != EINVAL) r.fail0("bind.einval_before_os", "%s(%s): %s, but it returned %ld with errno %s instead of -1/EINVAL", ep, args.c_str(), why, rc, ename(e));
    if (K.ncalls != before) r.fail0("bind.einval_before_os", "%s(%s): %s; -1/EINVAL was returned but the operating system was touched first: %s", ep, args.c_str(), why, calls_str(cs).c_str());
    r.count("probe.einval_rejected_without_kernel_call");
  }
  void expect_enosys(Run &r, const char *ep, const std::string &args, long rc, int e) {
    if (rc != -1 || e != ENOSYS) r.fail0("bind.enosys", "%s(%s): no hook for it is advertised in hwloc_topology_get_support(), but it returned %ld with errno %s instead of -1/ENOSYS", ep, args.c_str(), rc, ename(e));
    r.count("probe.enosys_no_hook");
  }

  // ------------------------------------------------------------------ CPU binding entry points
  void op_cpu(Run &r, const Op &o, int ep) {
    Rep &R = pick_rep(o); hwloc_topology_t t = R.t;
    int flags = (int)(uint32_t)o.u("fl"); bool is_set = ep_takes_set(ep);
    GenSet g; if (is_set) g = make_set(R, false, (unsigned)o.u("cls"), o.u("ss"));
    hwloc_bitmap_t out = hwloc_bitmap_alloc();
    // the result bitmap of a get-call is the caller's and need not be empty: half of the time it holds leftovers (a few low bits and one far above
    // the machine) that the call must overwrite, not merge with
    if (!is_set && (o.u("fl") >> 9 & 1) == ((o.u("who") >> 1) & 1)) { hwloc_bitmap_set(out, 1); hwloc_bitmap_set(out, 3); hwloc_bitmap_set(out, 2500); }
    struct F { hwloc_bitmap_t a, b; ~F() { if (a) hwloc_bitmap_free(a); hwloc_bitmap_free(b); } } fr{g.bm, out};
    int who = (int)(o.u("who") % 2);
    pid_t pid = who ? 0 : getpid(); pthread_t th = who ? g_helper.th : pthread_self();
    K.clear_calls(); uint64_t before = K.ncalls; errno = 0; int rc;
    switch (ep) {
      case SET_CPUBIND: rc = hwloc_set_cpubind(t, g.bm, flags); break;
      case GET_CPUBIND: rc = hwloc_get_cpubind(t, out, flags); break;
      case SET_PROC_CPUBIND: rc = hwloc_set_proc_cpubind(t, pid, g.bm, flags); break;
      case GET_PROC_CPUBIND: rc = hwloc_get_proc_cpubind(t, pid, out, flags); break;
      case SET_THREAD_CPUBIND: rc = hwloc_set_thread_cpubind(t, th, g.bm, flags); break;
      case GET_THREAD_CPUBIND: rc = hwloc_get_thread_cpubind(t, th, out, flags); break;
      case GET_LAST_CPU: rc = hwloc_get_last_cpu_location(t, out, flags); break;
      default: rc = hwloc_get_proc_last_cpu_location(t, pid, out, flags); break;
    }
    int e = rc ? errno : 0; std::vector<Call> cs = K.calls; account(r, cs);
    Set got = toset(out);
    std::string sc = is_set ? setclass(g, R.complete, R.topo) : "-";
    char args[512]; snprintf(args, sizeof args, "%s r%d%s%s flags=0x%x%s", envname(R), slot_of(R), is_set ? " set=" : "", is_set ? g.str().substr(0, 300).c_str() : "", (unsigned)flags,
                             (ep == SET_PROC_CPUBIND || ep == GET_PROC_CPUBIND || ep == GET_PROC_LAST_CPU) ? (who ? " pid=0" : " pid=self") : (ep == SET_THREAD_CPUBIND || ep == GET_THREAD_CPUBIND) ? (who ? " thread=helper" : " thread=self") : "");
    r.ev("%s %s -> rc=%d errno=%s out={%s} | %s", EPN[ep], args, rc, ename(e), is_set ? "" : sstr(got).c_str(), calls_str(cs).c_str());
    state(r, ep, R, sc, flags, CPU_ALLFLAGS, 0, rc, e);
    r.count(is_set ? "cpubind_set_calls" : "cpubind_get_calls");
    // (1)
    bool badflags = (flags & ~CPU_ALLFLAGS) != 0, badset = is_set && (g.infinite || g.s.empty() || !incl(R.complete, g.s));
    if (badflags || badset) { expect_einval(r, EPN[ep], args, rc, e, before, cs, badflags ? "unknown flag bit" : g.s.empty() && !g.infinite ? "empty set" : "set not included in the complete cpuset"); return; }
    // (4)
    if (!R.thissystem) {
      r.count("probe.foreign_calls");
      if (rc) r.fail0("bind.foreign_no_effect", "%s(%s) on a topology that is not this system returned %d, errno %s", EPN[ep], args, rc, ename(e));
      if (K.ncalls != before) r.fail0("bind.foreign_no_effect", "%s(%s) on a topology that is not this system reached the operating system: %s", EPN[ep], args, calls_str(cs).c_str());
      if (!is_set && got != R.complete) r.fail0("bind.foreign_no_effect", "%s(%s) on a topology that is not this system reported {%s}, the whole machine is {%s}", EPN[ep], args, sstr(got).c_str(), sstr(R.complete).c_str());
      return;
    }
    // (3)
    bool P = flags & HWLOC_CPUBIND_PROCESS, T = !P && (flags & HWLOC_CPUBIND_THREAD); bool adv;
    switch (ep) {
      case SET_CPUBIND: adv = P ? R.cs.set_thisproc_cpubind : T ? R.cs.set_thisthread_cpubind : (R.cs.set_thisproc_cpubind || R.cs.set_thisthread_cpubind); break;
      case GET_CPUBIND: adv = P ? R.cs.get_thisproc_cpubind : T ? R.cs.get_thisthread_cpubind : (R.cs.get_thisproc_cpubind || R.cs.get_thisthread_cpubind); break;
      case GET_LAST_CPU: adv = P ? R.cs.get_thisproc_last_cpu_location : T ? R.cs.get_thisthread_last_cpu_location : (R.cs.get_thisproc_last_cpu_location || R.cs.get_thisthread_last_cpu_location); break;
      case SET_PROC_CPUBIND: adv = R.cs.set_proc_cpubind; break; case GET_PROC_CPUBIND: adv = R.cs.get_proc_cpubind; break;
      case SET_THREAD_CPUBIND: adv = R.cs.set_thread_cpubind; break; case GET_THREAD_CPUBIND: adv = R.cs.get_thread_cpubind; break;
      default: adv = R.cs.get_proc_last_cpu_location; break;
    }
    if (!adv) { expect_enosys(r, EPN[ep], args, rc, e); return; }
    // reading a single thread's binding (the calling thread or another one): what hwloc reports is what the kernel answered for that thread,
    // cut at the last CPU of the complete cpuset - the read half of the round trip, whoever set the binding
    if (!is_set && rc == 0 && (ep == GET_THREAD_CPUBIND || (ep == GET_CPUBIND && T)) && !R.complete.empty()) {
      const kmodel::Call *last = nullptr; for (auto &c : cs) if ((c.kind == kmodel::GETAFF || c.kind == kmodel::PGETAFF) && c.ret == 0) last = &c;
      if (last) { Set expect; unsigned top = *R.complete.rbegin(); for (unsigned x : last->set) if (x <= top) expect.insert(x);
        if (got != expect) r.fail0("bind.thread_binding_reported", "%s(%s) returned {%s}; the kernel answered {%s} for that thread (complete cpuset ends at %u)", EPN[ep], args, sstr(got).c_str(), sstr(last->set).c_str(), top);
        r.count("probe.thread_binding_read_checked"); }
    }
    // process-wide reads without STRICT: the union of what the kernel answered for each thread of the process (cut at the last CPU of the complete
    // cpuset), nothing else - whatever the result bitmap held before
    if (!is_set && rc == 0 && !(flags & HWLOC_CPUBIND_STRICT) && ((ep == GET_CPUBIND && !T) || ep == GET_PROC_CPUBIND) && !R.complete.empty()) {
      Set expect; unsigned top = *R.complete.rbegin(); unsigned n = 0; for (auto &c : cs) if ((c.kind == kmodel::GETAFF || c.kind == kmodel::PGETAFF) && c.ret == 0) { n++; for (unsigned x : c.set) if (x <= top) expect.insert(x); }
      if (n) { if (got != expect) r.fail0("bind.process_binding_reported", "%s(%s) returned {%s}; the union of what the kernel answered for the %u threads is {%s}", EPN[ep], args, sstr(got).c_str(), n, sstr(expect).c_str()); r.count("probe.process_binding_read_checked"); }
    }
    // last CPU location: exactly the CPUs the kernel named for the thread(s) asked about (sched_getcpu, or the processor field of /proc/<tid>/stat -
    // whose command-name field may itself contain blanks and parentheses)
    if (!is_set && rc == 0 && (ep == GET_LAST_CPU || ep == GET_PROC_LAST_CPU)) {
      Set expect; unsigned n = 0; for (auto &c : cs) if ((c.kind == kmodel::GETCPU && c.ret >= 0) || (c.kind == kmodel::FILE_READ && c.file.find("/stat") != std::string::npos && c.err == 0)) { n++; for (unsigned x : c.set) expect.insert(x); }
      if (n) { if (got != expect) r.fail0("bind.last_cpu_location_reported", "%s(%s) returned {%s}; the kernel named {%s}", EPN[ep], args, sstr(got).c_str(), sstr(expect).c_str()); r.count("probe.last_cpu_location_checked"); }
    }
    if (!is_set) return;
    // (2)
    bool covers = incl(g.s, R.topo); Set D = covers ? R.complete : g.s;
    if (covers) r.count("probe.covering_set_replaced_by_complete");
    unsigned nset = 0;
    for (auto &c : cs) if (c.kind == kmodel::SETAFF || c.kind == kmodel::PSETAFF) {
      nset++;
      if (c.set != D) r.fail0("bind.cpuset_delivered", "%s(%s): the kernel received {%s} (cpusetsize %lu), expected %s {%s}", EPN[ep], args, sstr(c.set).c_str(), c.size, covers ? "the complete cpuset because the request covers the topology cpuset:" : "the requested set bit for bit:", sstr(D).c_str());
      if (c.size * 8 <= *D.rbegin()) r.fail0("bind.cpuset_delivered", "%s(%s): cpusetsize %lu does not cover CPU %u", EPN[ep], args, c.size, *D.rbegin());
    }
    if (!nset) r.fail0("bind.cpuset_delivered", "%s(%s): valid request on a thissystem topology with an advertised hook, but no affinity call reached the kernel (rc=%d errno=%s)", EPN[ep], args, rc, ename(e));
    r.count("probe.cpuset_delivered_checked");
    // (5)
    bool self_thread = (ep == SET_CPUBIND && T) || (ep == SET_THREAD_CPUBIND && !who);
    if (self_thread && incl(A(), g.s)) { if (rc) r.fail0("bind.roundtrip", "%s(%s): binding the current thread to a subset of allowed&online {%s} failed: errno %s; kernel saw: %s", EPN[ep], args, sstr(A()).c_str(), ename(e), calls_str(cs).c_str()); readback(r, R, inter(D, A()), args); }
  }

  void readback(Run &r, Rep &R, const Set &expect, const char *args) {
    hwloc_bitmap_t g = hwloc_bitmap_alloc(); struct F { hwloc_bitmap_t a; ~F() { hwloc_bitmap_free(a); } } fr{g};
    K.clear_calls(); errno = 0;
    int rc = hwloc_get_cpubind(R.t, g, HWLOC_CPUBIND_THREAD); int e = rc ? errno : 0; Set got = toset(g); account(r, K.calls);
    r.ev("  readback get_cpubind(THREAD) rc=%d errno=%s {%s} | %s", rc, ename(e), sstr(got).c_str(), calls_str(K.calls).c_str());
    if (rc || got != expect) r.fail0("bind.roundtrip", "after binding the current thread (%s), get_cpubind(THREAD) returned rc=%d errno=%s {%s}; expected {%s}", args, rc, ename(e), sstr(got).c_str(), sstr(expect).c_str());
    hwloc_bitmap_zero(g); K.clear_calls(); errno = 0;
    rc = hwloc_get_last_cpu_location(R.t, g, HWLOC_CPUBIND_THREAD); e = rc ? errno : 0; got = toset(g); account(r, K.calls);
    r.ev("  readback get_last_cpu_location(THREAD) rc=%d errno=%s {%s}", rc, ename(e), sstr(got).c_str());
    if (rc || got.empty() || !incl(expect, got)) r.fail0("bind.roundtrip", "after binding the current thread (%s), get_last_cpu_location(THREAD) returned rc=%d errno=%s {%s}, not inside {%s}", args, rc, ename(e), sstr(got).c_str(), sstr(expect).c_str());
    r.count("probe.roundtrip_checked");
  }

  // dedicated clause-(5) op: any non-empty subset of allowed&online (within the topology), current thread
  void op_roundtrip(Run &r, const Op &o) {
    Rep &R = pick_rep(o);
    if (!R.thissystem) { r.ev("roundtrip skipped: not this system"); return; }
    Set base = inter(A(), R.topo); if (base.empty()) { r.ev("roundtrip skipped: no allowed CPU in the topology"); return; }
    Op s("set_cpubind"); s.set("r", o.u("r")).set("cls", 9).setu("ss", o.u("ss")).setu("fl", HWLOC_CPUBIND_THREAD | (o.u("strict") ? HWLOC_CPUBIND_STRICT : 0));
    op_cpu(r, s, SET_CPUBIND);
  }

  // ------------------------------------------------------------------ memory binding entry points
  // area ops work on a live buffer, or on the machine's own mapping when there is none
  void pick_area(const Op &o, void **addr, size_t *len) {
    char *base; size_t blen;
    if (bufs.empty()) { base = (char *)ensure_static(); blen = STATIC_LEN; } else { Buf &b = bufs[o.u("buf") % bufs.size()]; base = (char *)b.p; blen = b.len;
      // the number of pages an area spans (= kernel calls of the per-page entry points, which are logged) must not depend on where the allocator
      // happened to place the buffer: areas start at the first page boundary inside it, or in the machine's own mapping when it holds none
      char *ab = (char *)(((uintptr_t)base + 4095) & ~(uintptr_t)4095);
      if (blen >= 2 * 4096 - 1) { blen -= 4095; base = ab; } else { base = (char *)ensure_static(); blen = STATIC_LEN; } }   // blen - 4095 bytes fit behind the boundary wherever the buffer starts
    size_t off = o.u("off") % blen, l = o.u("len"); if (l > blen - off) l = blen - off;
    *addr = base + off; *len = l;
  }

  // (invalid policy values are part of the input space: the enum check of UBSan is for the harness's own loads only)
  __attribute__((no_sanitize("enum"))) void op_mem(Run &r, const Op &o, int ep) {
    Rep &R = pick_rep(o); hwloc_topology_t t = R.t;
    int flags = (int)(uint32_t)o.u("fl"), pol = (int)o.i("pol"); bool takes = ep_takes_set(ep), bynode = flags & HWLOC_MEMBIND_BYNODESET;
    bool area = ep == SET_AREA_MEMBIND || ep == GET_AREA_MEMBIND || ep == GET_AREA_MEMLOCATION, alloc = ep == ALLOC_MEMBIND || ep == ALLOC_MEMBIND_POLICY;
    GenSet g; if (takes) g = make_set(R, bynode, (unsigned)o.u("cls"), o.u("ss"));
    hwloc_bitmap_t out = hwloc_bitmap_alloc();
    struct F { hwloc_bitmap_t a, b; ~F() { if (a) hwloc_bitmap_free(a); hwloc_bitmap_free(b); } } fr{g.bm, out};
    int who = (int)(o.u("who") % 2); pid_t pid = who ? 0 : getpid();
    void *addr = nullptr; size_t len = 0;
    if (area) pick_area(o, &addr, &len);
    if (alloc) len = (size_t)(1 + o.u("pages") % 6) * 4096;
    hwloc_membind_policy_t gotpol = HWLOC_MEMBIND_DEFAULT; void *mem = nullptr;
    K.clear_calls(); uint64_t before = K.ncalls; errno = 0; long rc;
    switch (ep) {
      case SET_MEMBIND: rc = hwloc_set_membind(t, g.bm, (hwloc_membind_policy_t)pol, flags); break;
      case GET_MEMBIND: rc = hwloc_get_membind(t, out, &gotpol, flags); break;
      case SET_PROC_MEMBIND: rc = hwloc_set_proc_membind(t, pid, g.bm, (hwloc_membind_policy_t)pol, flags); break;
      case GET_PROC_MEMBIND: rc = hwloc_get_proc_membind(t, pid, out, &gotpol, flags); break;
      case SET_AREA_MEMBIND: rc = hwloc_set_area_membind(t, addr, len, g.bm, (hwloc_membind_policy_t)pol, flags); break;
      case GET_AREA_MEMBIND: rc = hwloc_get_area_membind(t, addr, len, out, &gotpol, flags); break;
      case GET_AREA_MEMLOCATION: rc = hwloc_get_area_memlocation(t, addr, len, out, flags); break;
      case ALLOC_MEMBIND: mem = hwloc_alloc_membind(t, len, g.bm, (hwloc_membind_policy_t)pol, flags); rc = mem ? 0 : -1; break;
      default: mem = hwloc_alloc_membind_policy(t, len, g.bm, (hwloc_membind_policy_t)pol, flags); rc = mem ? 0 : -1; break;
    }
    int e = rc ? errno : 0; std::vector<Call> cs = K.calls; account(r, cs);
    if (mem) bufs.push_back({mem, len, slot_of(R)});
    Set got = toset(out);
    const Set &U = bynode ? R.ncomplete : R.complete; const Set &T = bynode ? R.ntopo : R.topo;
    std::string sc = takes ? setclass(g, U, T) : "-";
    char args[600]; snprintf(args, sizeof args, "%s r%d%s%s policy=%d flags=0x%x%s%s", envname(R), slot_of(R), takes ? (bynode ? " nodeset=" : " cpuset=") : "", takes ? g.str().substr(0, 300).c_str() : "", pol, (unsigned)flags,
                             (ep == SET_PROC_MEMBIND || ep == GET_PROC_MEMBIND) ? (who ? " pid=0" : " pid=self") : "", area || alloc ? (" len=" + std::to_string(len)).c_str() : "");
    r.ev("%s %s -> rc=%ld errno=%s out={%s} outpol=%d | %s", EPN[ep], args, rc, ename(e), takes ? "" : sstr(got).c_str(), (takes || rc || ep == GET_AREA_MEMLOCATION) ? -99 : (int)gotpol, calls_str(cs).c_str());
    state(r, ep, R, sc + (area ? (len ? "/len" : "/len0") : ""), flags, MEM_ALLFLAGS, takes ? pol : 0, rc, e);
    r.count(takes ? "membind_set_calls" : "membind_get_calls");

    // the nodeset the request stands for, after hwloc's documented fix-ups
    bool badflags = (flags & ~MEM_ALLFLAGS) != 0, badpol = takes && !(pol >= 0 && pol <= 5), badset = false; Set N; const char *whybad = "";
    if (takes) {
      if (g.infinite || g.s.empty() || !incl(U, g.s)) { badset = true; whybad = g.s.empty() && !g.infinite ? "empty set" : bynode ? "set not included in the complete nodeset" : "set not included in the complete cpuset"; }
      else if (bynode) N = g.s;
      else { N = incl(g.s, R.topo) ? R.ncomplete : R.conv(g.s); if (N.empty()) { badset = true; whybad = "cpuset without any local NUMA node (empty nodeset)"; } }
      if (!badset && incl(N, R.ntopo)) { N = R.ncomplete; r.count("probe.covering_set_replaced_by_complete"); }
    }
    const char *why = badflags ? "unknown flag bit" : badpol ? "invalid policy" : whybad;

    // (1)
    if (area && len == 0) {   // nothing to do / nothing to query: decided before any hook
      if (K.ncalls != before) r.fail0("bind.einval_before_os", "%s(%s) with len 0 reached the operating system: %s", EPN[ep], args, calls_str(cs).c_str());
      if (badflags || badpol || ep == GET_AREA_MEMBIND) expect_einval(r, EPN[ep], args, rc, e, before, cs, badflags ? "unknown flag bit" : badpol ? "invalid policy" : "empty area");
      return;
    }
    if (alloc) {
      // (an invalid set makes the allocation fall back whatever the flags are: hwloc_alloc_membind() looks at the cpuset first)
      if (!badset && (badflags || badpol)) { if (mem) r.fail0("bind.einval_before_os", "%s(%s): %s, but memory was returned", EPN[ep], args, why); expect_einval(r, EPN[ep], args, rc, e, before, cs, why); return; }
      if (badset || (ep == ALLOC_MEMBIND && (flags & HWLOC_MEMBIND_MIGRATE))) {
        if (badset && (badflags || badpol)) r.count("probe.alloc_invalid_set_and_flags");
        // documented fall-back: without STRICT the memory is allocated anyway, unbound; with STRICT the error is reported
        if (K.ncalls != before) r.fail0("bind.einval_before_os", "%s(%s): %s, but a binding request reached the operating system: %s", EPN[ep], args, badset ? why : "MIGRATE is meaningless for an allocation", calls_str(cs).c_str());
        if (flags & HWLOC_MEMBIND_STRICT) { if (mem || e != EINVAL) r.fail0("bind.einval_before_os", "%s(%s) with STRICT: %s, expected NULL/EINVAL, got %s errno %s", EPN[ep], args, badset ? why : "MIGRATE", mem ? "memory" : "NULL", ename(e)); }
        r.count("probe.einval_rejected_without_kernel_call");
        return;
      }
    } else if (badflags || badpol || badset || (ep == GET_AREA_MEMBIND && len == 0)) { expect_einval(r, EPN[ep], args, rc, e, before, cs, why); return; }

    // (4)
    if (!R.thissystem) {
      r.count("probe.foreign_calls");
      if (rc) r.fail0("bind.foreign_no_effect", "%s(%s) on a topology that is not this system failed: errno %s", EPN[ep], args, ename(e));
      if (K.ncalls != before) r.fail0("bind.foreign_no_effect", "%s(%s) on a topology that is not this system reached the operating system: %s", EPN[ep], args, calls_str(cs).c_str());
      if (!takes) { Set whole = bynode ? R.ncomplete : R.conv_back(R.ncomplete); if (got != whole) r.fail0("bind.foreign_no_effect", "%s(%s) on a topology that is not this system reported {%s}, the whole machine is {%s}", EPN[ep], args, sstr(got).c_str(), sstr(whole).c_str()); }
      return;
    }
    // (3)
    bool P = flags & HWLOC_MEMBIND_PROCESS, Tf = !P && (flags & HWLOC_MEMBIND_THREAD); int adv = -1;
    switch (ep) {
      case SET_MEMBIND: adv = P ? R.ms.set_thisproc_membind : Tf ? R.ms.set_thisthread_membind : (R.ms.set_thisproc_membind || R.ms.set_thisthread_membind); break;
      case GET_MEMBIND: adv = P ? R.ms.get_thisproc_membind : Tf ? R.ms.get_thisthread_membind : (R.ms.get_thisproc_membind || R.ms.get_thisthread_membind); break;
      case SET_PROC_MEMBIND: adv = R.ms.set_proc_membind; break; case GET_PROC_MEMBIND: adv = R.ms.get_proc_membind; break;
      case SET_AREA_MEMBIND: adv = R.ms.set_area_membind; break; case GET_AREA_MEMBIND: adv = R.ms.get_area_membind; break;
      case GET_AREA_MEMLOCATION: adv = R.ms.get_area_memlocation; break;
      case ALLOC_MEMBIND: adv = (R.ms.alloc_membind || R.ms.set_area_membind) ? 1 : (flags & HWLOC_MEMBIND_STRICT) ? 0 : -1; break;
      default: break;
    }
    if (adv == 0) { expect_enosys(r, EPN[ep], args, rc, e); return; }
    if (!takes) return;

    // (2)
    std::vector<const Call *> pc; bool migrate_refused = false;
    for (auto &c : cs) if (c.kind == kmodel::SET_MEMPOLICY || c.kind == kmodel::MBIND || c.kind == kmodel::MIGRATE_PAGES) {
      if (!incl(R.ncomplete, c.set)) r.fail0("bind.membind_mask", "%s(%s): the kernel received a nodemask naming a node outside the complete nodeset {%s}: %s", EPN[ep], args, sstr(R.ncomplete).c_str(), c.str().c_str());
      if (c.kind == kmodel::MIGRATE_PAGES && c.ret < 0) migrate_refused = true;
      if (c.kind == kmodel::MIGRATE_PAGES) { if (c.set != N) r.fail0("bind.membind_mask", "%s(%s): migrate_pages target {%s}, fixed nodeset is {%s}", EPN[ep], args, sstr(c.set).c_str(), sstr(N).c_str()); }
      else pc.push_back(&c);
    }
    if (pol == HWLOC_MEMBIND_NEXTTOUCH) return;   // valid for bind.c, not implemented by the Linux hooks: nothing promised
    bool strict = flags & HWLOC_MEMBIND_STRICT;
    // alloc_membind_policy with MIGRATE and without STRICT: alloc_membind's documented fall-back returns unbound memory
    if (ep == ALLOC_MEMBIND_POLICY && (flags & HWLOC_MEMBIND_MIGRATE) && pc.empty()) return;
    // MIGRATE|STRICT: the kernel refused migrate_pages(), the policy is then not installed
    if (migrate_refused && strict && pc.empty()) { r.count("probe.migrate_refused_strict"); return; }
    if (pol == HWLOC_MEMBIND_DEFAULT || pol == HWLOC_MEMBIND_FIRSTTOUCH) {
      for (auto c : pc) if (!c->set.empty()) r.fail0("bind.membind_mask", "%s(%s): %s takes no mask, but the kernel received %s", EPN[ep], args, pol ? "FIRSTTOUCH" : "DEFAULT", c->str().c_str());
      if (pol == HWLOC_MEMBIND_FIRSTTOUCH && N != R.ncomplete) {
        r.count("probe.firsttouch_partial_exdev");
        if (!pc.empty()) r.fail0("bind.membind_mask", "%s(%s): FIRSTTOUCH with a partial nodeset must be refused before the kernel is called, kernel saw: %s", EPN[ep], args, calls_str(cs).c_str());
        if (ep == ALLOC_MEMBIND_POLICY) { if (strict && mem) r.fail0("bind.membind_mask", "%s(%s): FIRSTTOUCH with a partial nodeset and STRICT returned memory", EPN[ep], args); }   // errno is that of the set_membind() fall-back
        else if (alloc) { if (strict && (mem || e != EXDEV)) r.fail0("bind.membind_mask", "%s(%s): FIRSTTOUCH with a partial nodeset and STRICT: expected NULL/EXDEV, got %s errno %s", EPN[ep], args, mem ? "memory" : "NULL", ename(e)); }
        else if (rc != -1 || e != EXDEV) r.fail0("bind.membind_mask", "%s(%s): FIRSTTOUCH with a partial nodeset: expected -1/EXDEV, got %ld errno %s", EPN[ep], args, rc, ename(e));
      } else if (pc.empty()) r.fail0("bind.membind_mask", "%s(%s): valid request, advertised hook, but no policy call reached the kernel (rc=%ld errno=%s)", EPN[ep], args, rc, ename(e));
      r.count("probe.membind_nomask_checked");
      return;
    }
    if (pol == HWLOC_MEMBIND_BIND && !strict) {
      // alloc_membind_policy may legitimately go through mbind and then set_mempolicy: judge the two families apart
      std::vector<Call> a, b; for (auto c : pc) (c->kind == kmodel::MBIND ? a : b).push_back(*c);
      if (a.empty() && b.empty()) r.fail0("bind.membind_mask", "%s(%s): valid request, advertised hook, but no policy call reached the kernel (rc=%ld errno=%s)", EPN[ep], args, rc, ename(e));
      if (!a.empty()) check_preferred_many(r, EPN[ep], a, N, false);
      if (!b.empty()) check_preferred_many(r, EPN[ep], b, N, false);
    } else {
      if (pc.empty()) r.fail0("bind.membind_mask", "%s(%s): valid request, advertised hook, but no policy call reached the kernel (rc=%ld errno=%s)", EPN[ep], args, rc, ename(e));
      for (auto c : pc) {
        if (c->set != N) r.fail0("bind.membind_mask", "%s(%s): the kernel received nodemask {%s} (maxnode %lu), the fixed nodeset is {%s}: %s", EPN[ep], args, sstr(c->set).c_str(), c->size, sstr(N).c_str(), c->str().c_str());
        if (c->size < (unsigned long)*N.rbegin() + 2) r.fail0("bind.membind_mask", "%s(%s): maxnode %lu does not cover node %u", EPN[ep], args, c->size, *N.rbegin());
      }
    }
    r.count("probe.membind_mask_checked");
  }

  void op_alloc(Run &r, const Op &o) {
    Rep &R = pick_rep(o); size_t len = (size_t)(1 + o.u("pages") % 6) * 4096;
    K.clear_calls(); uint64_t before = K.ncalls;
    void *p = hwloc_alloc(R.t, len);
    r.ev("alloc %s r%d len=%zu -> %s", envname(R), slot_of(R), len, p ? "ok" : "NULL");
    if (K.ncalls != before) r.ev("  alloc reached the kernel model: %s", calls_str(K.calls).c_str());
    if (p) { memset(p, 0x5a, len); bufs.push_back({p, len, slot_of(R)}); }
  }
  void op_free(Run &r, const Op &o) {
    if (bufs.empty()) { r.ev("free: no buffer"); return; }
    size_t i = o.u("buf") % bufs.size(); int slot = bufs[i].slot; size_t len = bufs[i].len;
    free_buf(i); r.ev("free buffer of r%d len=%zu", slot, len);
  }

  // ------------------------------------------------------------------ replicas, (re)loads, clause (6)
  void op_dup(Run &r, const Op &o) {
    Rep &R = pick_rep(o); int from = slot_of(R);
    hwloc_topology_t n = nullptr; int rc = hwloc_topology_dup(&n, R.t);
    if (rc || !n) { r.ev("dup r%d failed", from); return; }
    drop_rep(1); reps[1].t = n; describe(reps[1]); reps[1].how = "dup";
    r.ev("dup r%d -> r1 thissystem=%d", from, (int)reps[1].thissystem);
    r.count("probe.dup_replica");
  }

  struct Snap { Set mask; Policy pol; };
  Snap snap() { int t = K.self_tid(); return {K.observable_mask(t), K.policy_of(t)}; }

  // hwloc_topology_load() on a configuration that is (or claims to be) this system must leave the caller's binding alone
  void judged_load(Run &r, const char *what, int how, unsigned long tflags, hwloc_topology_t *tp, bool log_calls) {
    Snap b = snap(); K.clear_calls();
    int rc;
    if (how >= 3) { RealPin pin; rc = load_topo(tp, how, tflags); } else rc = load_topo(tp, how, tflags);
    std::vector<Call> cs = K.calls; Snap a = snap(); account(r, cs);
    unsigned nset = 0, refused = 0; for (auto &c : cs) if (c.kind == kmodel::SETAFF || c.kind == kmodel::PSETAFF) { nset++; if (c.ret < 0) refused++; }
    if (log_calls) r.ev("%s flags=0x%lx -> rc=%d binding before {%s}/%d{%s} after {%s}/%d{%s} | %s", what, tflags, rc, sstr(b.mask).c_str(), b.pol.mode, sstr(b.pol.nodes).c_str(), sstr(a.mask).c_str(), a.pol.mode, sstr(a.pol.nodes).c_str(), calls_str(cs).c_str());
    else r.ev("%s flags=0x%lx -> rc=%d restored=%d", what, tflags, rc, (int)(a.mask == b.mask && a.pol == b.pol));
    if (a.mask != b.mask) r.fail0("bind.load_restores_binding", "%s (flags 0x%lx, rc %d): the calling thread was bound to {%s} before hwloc_topology_load() and to {%s} after it; kernel saw: %s", what, tflags, rc, sstr(b.mask).c_str(), sstr(a.mask).c_str(), calls_str(cs).c_str());
    if (!(a.pol == b.pol)) r.fail0("bind.load_restores_binding", "%s (flags 0x%lx, rc %d): memory policy of the calling thread was mode %d {%s} before hwloc_topology_load() and mode %d {%s} after it", what, tflags, rc, b.pol.mode, sstr(b.pol.nodes).c_str(), a.pol.mode, sstr(a.pol.nodes).c_str());
    r.count("probe.load_binding_checked");
    if (nset) r.count("probe.load_rebinds_and_restores");
    if (refused) { r.count("probe.load_with_refused_binds"); r.count("fault.load_bind_refused", refused); }
  }

  void op_reload(Run &r, const Op &o) {
    int how = (int)(o.u("how") % 4); if (how == 0) how = 3;     // 1 flag, 2 envvar, 3 x86 (twice as likely)
    if (src_kind == "x86") how = 3;
    unsigned long tf = 0; unsigned sel = (unsigned)o.u("tf"); bool incl = sel & 8; sel &= 7;
    if (sel & 1) tf |= HWLOC_TOPOLOGY_FLAG_RESTRICT_TO_CPUBINDING;
    if ((sel & 2) && how != 3) tf |= HWLOC_TOPOLOGY_FLAG_RESTRICT_TO_MEMBINDING;
    if (sel == 6 && how == 3) tf = HWLOC_TOPOLOGY_FLAG_DONT_CHANGE_BINDING;
    if (sel >= 4 && how != 3) tf = 0;
    if (incl) tf |= HWLOC_TOPOLOGY_FLAG_INCLUDE_DISALLOWED;   // then hwloc_topology_allow() can make the allowed set narrower than the topology set
    hwloc_topology_t t = nullptr;
    judged_load(r, how == 3 ? "reload x86" : how == 1 ? "reload IS_THISSYSTEM" : "reload HWLOC_THISSYSTEM=1", how, tf, &t, true);
    if (!t) return;
    if (!hwloc_topology_is_thissystem(t)) { hwloc_topology_destroy(t); r.fail0("bind.thissystem_state", "topology reloaded with %s reports is_thissystem=0", how == 3 ? "x86 discovery" : how == 1 ? "IS_THISSYSTEM" : "HWLOC_THISSYSTEM=1"); }
    if (o.u("keep")) { drop_rep(2); reps[2].t = t; describe(reps[2]); reps[2].how = "reload"; r.ev("  kept as r2 thissystem=%d pus=%zu nodes=%zu", (int)reps[2].thissystem, reps[2].topo.size(), reps[2].ntopo.size()); }
    else hwloc_topology_destroy(t);
  }

  // hwloc_topology_allow(CUSTOM) on a topology loaded with INCLUDE_DISALLOWED: what hwloc calls allowed becomes a strict subset of the topology
  // cpuset; binding requests are still judged against the topology / complete sets (the statement), never against the allowed set
  void op_allow(Run &r, const Op &o) {
    Rep &R = pick_rep(o); if (!R.t) return;
    if (!(hwloc_topology_get_flags(R.t) & HWLOC_TOPOLOGY_FLAG_INCLUDE_DISALLOWED) || R.topo.size() < 2) { r.ev("allow r%d: not applicable", slot_of(R)); return; }
    Rng g(o.u("ss")); Set keep; for (unsigned x : R.topo) if (g.chance(1, 2)) keep.insert(x); if (keep.empty()) keep.insert(*R.topo.begin()); if (keep == R.topo) keep.erase(*keep.rbegin());
    hwloc_bitmap_t cs = hwloc_bitmap_alloc(); for (unsigned x : keep) hwloc_bitmap_set(cs, x); hwloc_bitmap_t ns = hwloc_bitmap_dup(hwloc_topology_get_topology_nodeset(R.t));
    errno = 0; int rc = hwloc_topology_allow(R.t, cs, ns, HWLOC_ALLOW_FLAG_CUSTOM); int e = errno; hwloc_bitmap_free(cs); hwloc_bitmap_free(ns);
    r.ev("allow r%d custom {%s} -> %d errno=%d", slot_of(R), sstr(keep).c_str(), rc, rc ? e : 0); if (!rc) r.count("probe.hwloc_allowed_narrowed");
  }

  void op_native(Run &r, const Op &o) {
    // discovery of the sandbox itself (components linux / linux,x86 on the real /sys and the real cpuid).  What it finds is not a
    // function of the plan, so only the verdict is logged; for its duration the model kernel takes the shape of the sandbox (CPUs
    // 0..n-1 of the real machine, one of them offline in some runs) so that model and discovered topology describe the same machine,
    // and gets its previous state back afterwards.
    struct Saved { Set online, allowed, present, nodes; std::map<int, Set> aff; std::map<int, int> cur; uint64_t rng; } sv{K.online, K.allowed, K.present, K.nodes, K.aff, K.curcpu, K.rng};
    struct Back { Saved &s; ~Back() { K.online = s.online; K.allowed = s.allowed; K.present = s.present; K.nodes = s.nodes; K.aff = s.aff; K.curcpu = s.cur; K.rng = s.rng; K.files = true; } } back{sv};
    long n = __real_sysconf(_SC_NPROCESSORS_CONF); if (n < 1) n = 1;
    Set old = K.observable_mask(K.self_tid());
    K.present.clear(); for (unsigned c = 0; c < (unsigned)n && c < K.nr_cpu_ids; c++) K.present.insert(c);
    K.online = K.allowed = K.present;
    if (o.u("off") && K.present.size() > 1) K.online.erase(nth(K.present, o.u("off")));
    Rng g(o.u("ms") + 1); Set m;
    if (o.u("ms") % 3) { for (unsigned c : A()) if (g.chance(1, 2)) m.insert(c); }
    if (m.empty()) m = inter(old, A());
    if (m.empty()) m = A();
    K.aff.clear(); K.curcpu.clear(); K.aff[K.self_tid()] = m; for (int t : K.tids) K.redraw(t);
    K.files = false; hwloc_topology_t t = nullptr;
    judged_load(r, o.u("x86") ? "native linux,x86" : "native linux", o.u("x86") ? 5 : 4, 0, &t, false);
    if (t) hwloc_topology_destroy(t);
    r.count("probe.native_load");
  }

  void op_hotplug(Run &r, const Op &o) {
    if (K.present.empty()) return;
    unsigned c = nth(K.present, o.u("cpu")); bool on = o.u("on");
    K.set_online(c, on);
    r.ev("hotplug cpu %u %s -> online {%s}", c, on ? "on" : "off", sstr(K.online).c_str());
    r.count("hotplugs");
  }

  // ------------------------------------------------------------------ run
  void run(const Plan &p, Run &r) override {
    struct Cleanup { BindMachine *m; ~Cleanup() { for (int i = 2; i >= 0; i--) m->drop_rep(i); m->bufs.clear(); unsetenv("HWLOC_THISSYSTEM"); unsetenv("HWLOC_COMPONENTS"); K.files = false; K.reset_run(0); } } cl{this};
    g_step_budget = 400000000ULL; steps_reset();
    warmup(r);
    K.reset_run(p.seed); K.files = true;
    src_kind = p.hk("src", "kind", "syn"); src_name = dec(p.hk("src", "name", "pu%3a2")); src_ncpu = (int)p.hki("src", "ncpu", 4);
    std::string mode = p.hk("env", "mode", "foreign");
    int how = mode == "foreign" ? 0 : mode == "flag" ? 1 : mode == "envvar" ? 2 : 3;
    if (src_kind == "x86") how = 3;
    r.curop = "load"; r.curopidx = -1;
    failfirst = p.seed * 0x9e3779b97f4a7c15ULL; failfirst ^= failfirst >> 29; nloads = 0;
    hwloc_topology_t t = nullptr;
    if (how == 3) { shape_x86(std::max(1, src_ncpu), p); judged_load(r, "load x86", 3, 0, &t, true); }
    else { int rc = load_topo(&t, how, 0); r.ev("load %s %s mode=%s -> rc=%d", src_kind.c_str(), src_name.c_str(), mode.c_str(), rc); }
    if (!t) { r.count("load_failed"); return; }
    reps[0].t = t; describe(reps[0]); reps[0].how = mode;
    Rep &R0 = reps[0];
    if (how == 3) { Rng g(p.hki("shape", "seed", 1) + 7); shape_nodes(R0, g, 0); } else shape_after(R0, p);
    r.ev("topology thissystem=%d complete={%s} topo={%s} ncomplete={%s} ntopo={%s} | kernel %s present={%s} online={%s} allowed={%s} nodes={%s} mask0={%s}", (int)R0.thissystem, sstr(R0.complete).c_str(), sstr(R0.topo).c_str(),
         sstr(R0.ncomplete).c_str(), sstr(R0.ntopo).c_str(), K.config_str().c_str(), sstr(K.present).c_str(), sstr(K.online).c_str(), sstr(K.allowed).c_str(), sstr(K.nodes).c_str(), sstr(K.observable_mask(K.tids[0])).c_str());
    // a synthetic / XML topology describes this system iff the application said so (IS_THISSYSTEM flag or HWLOC_THISSYSTEM=1); x86 discovery on the
    // model's CPUs always does. Everything the statement promises about "topologies that do not describe this system" vs "the running system" hangs on it
    if ((how != 0) != R0.thissystem) r.fail0("bind.thissystem_state", "topology loaded in mode %s reports is_thissystem=%d", mode.c_str(), (int)R0.thissystem);
    r.count(R0.thissystem ? "runs_thissystem" : "runs_foreign");
    if (R0.complete != R0.topo) r.count("probe.topology_with_disallowed_pus");
    int idx = 0;
    g_allowed_narrower = 0; struct Probe { Run &r; ~Probe() { if (g_allowed_narrower) r.count("probe.set_equal_to_narrower_hwloc_allowed", g_allowed_narrower); } } probe{r};
    for (const Op &o : p.ops) {
      r.curop = o.kind; r.curopidx = idx++; r.nops++; steps_reset();
      int ep = ep_of(o.kind);
      if (ep >= 0 && ep <= GET_PROC_LAST_CPU) op_cpu(r, o, ep);
      else if (ep >= 0) op_mem(r, o, ep);
      else if (o.kind == "roundtrip") op_roundtrip(r, o);
      else if (o.kind == "alloc") op_alloc(r, o);
      else if (o.kind == "free") op_free(r, o);
      else if (o.kind == "dup") op_dup(r, o);
      else if (o.kind == "reload") op_reload(r, o);
      else if (o.kind == "allow") op_allow(r, o);
      else if (o.kind == "load_native") op_native(r, o);
      else if (o.kind == "hotplug") op_hotplug(r, o);
      else r.ev("unknown op %s ignored", o.kind.c_str());
    }
    r.curop = "teardown";
  }
};

}  // namespace

int main(int argc, char **argv) { BindMachine m; return worker_main(argc, argv, m); }
